"""Evaluate z3 arithmetic/boolean terms in Python floats under a concrete assignment.

Used for encoding validation (DESIGN.md 3.3): the symbolic output terms of a harness are
evaluated at the concrete input vector and compared with what the unpatched function
returns.  Uninterpreted cos/sin/tan/exp/arctan2 are interpreted by `math`; fresh sqrt
variables by their recorded definition.
"""
import math

import z3

_K = z3


def feval(e, env, defs=None, cache=None, tol=0.0):
    """tol > 0: equalities between non-integers hold within a relative/absolute tolerance (used when a float assignment
    is tested against a path condition that contains exact identities such as cos^2 + sin^2 = 1)."""
    defs = defs or {}

    def _eq(a, b):
        if tol and (isinstance(a, float) or isinstance(b, float)) and not isinstance(a, bool) and not isinstance(b, bool):
            return abs(a - b) <= tol * max(1.0, abs(a), abs(b))
        return a == b
    cache = {} if cache is None else cache

    def ev(t):
        k = t.get_id()
        if k in cache:
            return cache[k]
        r = _ev(t)
        cache[k] = r
        return r

    def _ev(t):
        if z3.is_int_value(t):
            return t.as_long()
        if z3.is_rational_value(t):
            f = t.as_fraction()
            return f.numerator / f.denominator
        if z3.is_true(t):
            return True
        if z3.is_false(t):
            return False
        d = t.decl()
        kind = d.kind()
        ch = t.children()
        if kind == z3.Z3_OP_UNINTERPRETED:
            name = d.name()
            if not ch:
                if name in env:
                    return env[name]
                if name == "PI":
                    return math.pi
                if name in defs:
                    op, arg = defs[name]
                    if op == "sqrt":
                        return math.sqrt(max(ev(arg), 0.0))
                    if op == "exp":
                        return math.exp(ev(arg))
                    if op == "expr":
                        return ev(arg)
                raise KeyError(f"unbound symbol {name}")
            args = [ev(c) for c in ch]
            if name == "cos":
                return math.cos(args[0])
            if name == "sin":
                return math.sin(args[0])
            if name == "tan":
                return math.tan(args[0])
            if name == "exp":
                return math.exp(args[0])
            if name == "arctan2":
                return math.atan2(args[0], args[1])
            if name in env and callable(env[name]):
                return env[name](*args)
            raise KeyError(f"uninterpreted function {name}")
        if kind == z3.Z3_OP_ADD:
            return sum(ev(c) for c in ch)
        if kind == z3.Z3_OP_MUL:
            r = 1
            for c in ch:
                r = r * ev(c)
            return r
        if kind == z3.Z3_OP_SUB:
            r = ev(ch[0])
            for c in ch[1:]:
                r = r - ev(c)
            return r
        if kind == z3.Z3_OP_UMINUS:
            return -ev(ch[0])
        if kind == z3.Z3_OP_DIV:
            return ev(ch[0]) / ev(ch[1])
        if kind == z3.Z3_OP_IDIV:
            a, b = ev(ch[0]), ev(ch[1])
            q = a // b if b > 0 else -((a) // (-b)) if False else None
            # z3 integer division: a = b*q + r, 0 <= r < |b|
            if b > 0:
                return a // b
            return -(a // -b)
        if kind == z3.Z3_OP_MOD:
            a, b = ev(ch[0]), ev(ch[1])
            return a % abs(b)
        if kind == z3.Z3_OP_TO_REAL:
            return float(ev(ch[0]))
        if kind == z3.Z3_OP_TO_INT:
            return math.floor(ev(ch[0]))
        if kind == z3.Z3_OP_IS_INT:
            v = ev(ch[0])
            return abs(v - round(v)) < 1e-9
        if kind == z3.Z3_OP_POWER:
            return ev(ch[0]) ** ev(ch[1])
        if kind == z3.Z3_OP_ITE:
            return ev(ch[1]) if ev(ch[0]) else ev(ch[2])
        if kind == z3.Z3_OP_LE:
            return ev(ch[0]) <= ev(ch[1])
        if kind == z3.Z3_OP_LT:
            return ev(ch[0]) < ev(ch[1])
        if kind == z3.Z3_OP_GE:
            return ev(ch[0]) >= ev(ch[1])
        if kind == z3.Z3_OP_GT:
            return ev(ch[0]) > ev(ch[1])
        if kind == z3.Z3_OP_EQ:
            return _eq(ev(ch[0]), ev(ch[1]))
        if kind == z3.Z3_OP_DISTINCT:
            vs = [ev(c) for c in ch]
            return len(set(vs)) == len(vs)
        if kind == z3.Z3_OP_AND:
            return all(ev(c) for c in ch)
        if kind == z3.Z3_OP_OR:
            return any(ev(c) for c in ch)
        if kind == z3.Z3_OP_NOT:
            return not ev(ch[0])
        if kind == z3.Z3_OP_IMPLIES:
            return (not ev(ch[0])) or ev(ch[1])
        if kind == z3.Z3_OP_XOR:
            return ev(ch[0]) != ev(ch[1])
        raise NotImplementedError(f"feval: {d.name()} kind {kind}")

    return ev(e)
