"""CH engine: CrossHair (symbolic execution of Python over z3) on PEP-316 contracts that call the real code."""
import os
import re
import subprocess
import sys
import time

ROOT = os.path.dirname(os.path.dirname(os.path.abspath(__file__)))


def _line_of(path, func):
    for i, l in enumerate(open(path), 1):
        if l.startswith(f"def {func}("):
            return i + 1
    raise KeyError(func)


def run_contract(path, func, timeout_s, expect="confirmed", pid="", replay_prelude=""):
    """Returns a result dict in the runner's format for one contract."""
    t0 = time.time()
    line = _line_of(path, func)
    env = dict(os.environ, PYTHONPATH=f"{ROOT}:{os.environ.get('VERIF_REPO', '/repo')}")
    cmd = [sys.executable, "-m", "crosshair", "check", "--report_all", "--per_condition_timeout", str(timeout_s), f"{path}:{line}"]
    try:
        p = subprocess.run(cmd, capture_output=True, text=True, env=env, timeout=timeout_s * 2 + 120)
        out = p.stdout + p.stderr
    except subprocess.TimeoutExpired:
        out = "timeout"
    res = {"paths": 1, "queries": 1, "solver_s": time.time() - t0, "obligations": {}, "violations": [], "known": [], "unconfirmed": [],
           "validated": 0, "functions": [], "samples": [], "canaries": {}, "complete": True, "aborted": 0, "branch_unknown": 0, "inconclusive": [],
           "extra": {"crosshair_output": out.strip().splitlines()[-3:], "contract": func, "per_condition_timeout_s": timeout_s}}
    o = {"instances": 1, "unsat": 0, "sat": 0, "unknown": 0, "reached": 1}
    m = re.search(r"error: false when calling (.*?) \(which returns", out)
    if expect == "refuted":
        # reachability twin: the contract `post: not _` must be refuted
        if m:
            res["canaries"][func] = "sat"
        elif "Confirmed over all paths" in out:
            res["canaries"][func] = "unsat"
        else:
            res["canaries"][func] = "unknown"
        res["obligations"] = {}
        return res
    if "Confirmed over all paths" in out:
        o["unsat"] = 1
        res["samples"].append({"case": func, "obligation": func, "result": "Confirmed over all paths", "path_condition": [], "info": None})
    elif m:
        o["sat"] = 1
        call = m.group(1)
        from engine.run import run_replay
        script = ("import sys, warnings\nwarnings.filterwarnings('ignore')\nsys.path.insert(0, __import__('os').environ.get('VERIF_REPO', '/repo'))\n"
                  f"exec(open({path!r}).read())\n"
                  f"r = {call}\n"
                  f"if not r:\n    print('REPRODUCED: configuration not restored by', {call!r}); sys.exit(1)\nprint('NOT-REPRODUCED'); sys.exit(0)\n")
        rp, st, txt = run_replay(pid, func, "restored", script)
        if st == "reproduced":
            res["violations"].append({"obligation": func, "model": {"call": call}, "replay": rp, "output": txt})
        elif st == "error":
            res["error"] = f"replay error: {txt}"
        else:
            res["unconfirmed"].append({"obligation": func, "model": {"call": call}, "why": "not_reproduced"})
    else:
        o["unknown"] = 1
        res["inconclusive"].append(func)
    res["obligations"][func] = o
    return res
