"""Process-local namespace patching of abTEM modules (the worker process exits afterwards)."""
import numpy as np

from . import snp, sx

SHIM = None
_UNDO = []
_MISSING = object()


def set(mod, name, val):
    """Rebind mod.name, remembering the original so the worker can undo it after the case."""
    _UNDO.append((mod, name, mod.__dict__.get(name, _MISSING) if hasattr(mod, "__dict__") else getattr(mod, name, _MISSING)))
    setattr(mod, name, val)


def undo_all():
    while _UNDO:
        mod, name, old = _UNDO.pop()
        if old is _MISSING:
            try:
                delattr(mod, name)
            except AttributeError:
                pass
        else:
            setattr(mod, name, old)


def shim(**over):
    global SHIM
    if SHIM is None or over:
        SHIM = snp.make_shim(pi=True, **over)
    return SHIM


def patch(mod, np_=True, builtins=True, dtype=True, shim_obj=None, **names):
    """Rebind the names a target module looks up."""
    sh = shim_obj or shim()
    if np_ and hasattr(mod, "np"):
        set(mod, "np", sh)
    if builtins:
        set(mod, "int", sx.sint)
        set(mod, "float", sx.sfloat)
        set(mod, "isinstance", sx.sisinstance)
        set(mod, "round", sx.sround)
    if dtype:
        if hasattr(mod, "get_dtype"):
            set(mod, "get_dtype", lambda *a, **k: np.dtype(object))
        if hasattr(mod, "get_array_module"):
            set(mod, "get_array_module", lambda *a, **k: sh)
    for k, v in names.items():
        set(mod, k, v)
    return sh
