"""Delegating numpy shim: overrides only what cannot act on object arrays of wrappers.

Everything else is forwarded to the real numpy (which calls the wrappers' operators
elementwise on dtype=object arrays).  DESIGN.md section 2.1.
"""
import fractions
import math

import numpy as np
import z3

from . import sx
from .sx import SNum, SBool, SComplex, Polar, PSum, Tok, Ctx, _z, _zb, _real

_SYM = (SNum, SBool, SComplex, Polar, PSum, Tok)


def is_sym(x):
    if isinstance(x, _SYM):
        return True
    if isinstance(x, np.ndarray):
        return x.dtype == object
    if isinstance(x, (list, tuple)):
        return any(is_sym(v) for v in x)
    return False


def _oarr(x):
    if isinstance(x, np.ndarray):
        return x
    if isinstance(x, _SYM):
        a = np.empty((), dtype=object)
        a[()] = x
        return a
    if isinstance(x, (list, tuple)) and is_sym(x):
        return sx.obj(x)
    return np.asarray(x)


class SymArr(np.ndarray):
    """object ndarray whose boolean-mask indexing forks on symbolic booleans, and whose astype(int) truncates"""

    def __getitem__(self, idx):
        return super().__getitem__(_conc_index(idx))

    def __setitem__(self, idx, val):
        super().__setitem__(_conc_index(idx), val)

    @property
    def real(self):
        return _map(lambda v: v.real if isinstance(v, (SComplex, SNum, Polar, complex)) else v, np.asarray(self))

    @property
    def imag(self):
        return _map(lambda v: v.imag if isinstance(v, (SComplex, SNum, Polar, complex)) else 0.0, np.asarray(self))

    def astype(self, dtype, *a, **k):
        if dtype is sx.sint or dtype is int:
            return _map(sx.sint, self).view(IntObjArr) if self.shape else sx.sint(self[()])
        if dtype is sx.sfloat or dtype is float:
            return _map(sx.sfloat, self)
        if dtype is bool:
            return _conc_mask(self)
        try:
            dt = np.dtype(dtype)
            if dt == object:
                return self.copy()
            if dt.kind in "iu":
                return _map(sx.sint, self).view(IntObjArr) if self.shape else sx.sint(self[()])
            if dt.kind == "f":
                return _map(sx.sfloat, self)
        except TypeError:
            pass
        return np.asarray(self).astype(dtype, *a, **k)


class IntObjArr(SymArr):
    """stands for an integer ndarray: values assigned into it are truncated like a cast to int"""

    def __setitem__(self, idx, val):
        if is_sym(val) or isinstance(val, (float, np.floating)) or (isinstance(val, np.ndarray) and val.dtype.kind == "f"):
            val = _map(sx.sint, val)
        super().__setitem__(idx, val)


def _conc_mask(a):
    out = np.zeros(a.shape, dtype=bool)
    for i in np.ndindex(a.shape):
        out[i] = bool(a[i])
    return out


def _is_boolish(a):
    if not (isinstance(a, np.ndarray) and a.dtype == object and a.size):
        return False
    return all(isinstance(v, (SBool, bool, np.bool_)) for v in a.ravel())


def _conc_index(idx):
    if isinstance(idx, tuple):
        return tuple(_conc_index(i) for i in idx)
    if _is_boolish(idx):
        return _conc_mask(idx)
    if isinstance(idx, np.ndarray) and idx.dtype == object and idx.size and any(isinstance(v, SNum) for v in idx.ravel()):
        out = np.zeros(idx.shape, dtype=np.intp)
        for i in np.ndindex(idx.shape):
            out[i] = idx[i].__index__() if isinstance(idx[i], SNum) else int(idx[i])
        return out
    return idx


def _map(f, x):
    a = _oarr(x)
    out = np.empty(a.shape, dtype=object)
    for idx in np.ndindex(a.shape):
        out[idx] = f(a[idx])
    return out.view(SymArr) if out.shape else out[()]


def _int_alloc(name):
    npf = getattr(np, name)

    def f(shape, *a, dtype=None, **k):
        if dtype is sx.sint:
            return npf(shape, *a, dtype=object, **k).view(IntObjArr)
        if dtype is sx.sfloat:
            return npf(shape, *a, dtype=float, **k)
        return npf(shape, *a, dtype=dtype, **k) if dtype is not None else npf(shape, *a, **k)

    return f


def _unary(name, pyfunc, meth=None):
    npf = getattr(np, name)
    meth = meth or name

    def f(x, *a, **k):
        if not is_sym(x):
            return npf(x, *a, **k)

        def g(v):
            if isinstance(v, _SYM):
                return getattr(v, meth)()
            return pyfunc(v)

        return _map(g, x)

    f.__name__ = name
    return f


def _sabs(x):
    if not is_sym(x):
        return np.abs(x)
    return _map(lambda v: abs(v), x)


def _sign(x):
    if not is_sym(x):
        return np.sign(x)

    def g(v):
        if isinstance(v, SNum):
            return SNum(z3.If(v.e > 0, z3.IntVal(1), z3.If(v.e < 0, z3.IntVal(-1), z3.IntVal(0))))
        return np.sign(v)

    return _map(g, x)


def _where(cond, a=None, b=None):
    if a is None:
        if is_sym(cond):
            c = _oarr(cond)
            mask = np.zeros(c.shape, dtype=bool)
            for i in np.ndindex(c.shape):
                mask[i] = bool(c[i])
            return np.where(mask)
        return np.where(cond)
    if not (is_sym(cond) or is_sym(a) or is_sym(b)):
        return np.where(cond, a, b)
    c, aa, bb = np.broadcast_arrays(_oarr(cond), _oarr(a), _oarr(b))
    out = np.empty(c.shape, dtype=object)
    for i in np.ndindex(c.shape):
        ci = c[i]
        if isinstance(ci, SBool):
            x, y = aa[i], bb[i]
            if isinstance(x, SComplex) or isinstance(y, SComplex):
                x, y = SComplex.of(x), SComplex.of(y)
                out[i] = SComplex(SNum(z3.If(ci.e, x.re.e, y.re.e)), SNum(z3.If(ci.e, x.im.e, y.im.e)))
            elif isinstance(x, (SBool,)) or isinstance(y, SBool):
                out[i] = SBool(z3.If(ci.e, _zb(x), _zb(y)))
            else:
                xe, ye = _z(x), _z(y)
                if xe.is_int() != ye.is_int():
                    xe, ye = _real(xe), _real(ye)
                out[i] = SNum(z3.If(ci.e, xe, ye))
        else:
            out[i] = aa[i] if ci else bb[i]
    return out if out.shape else out[()]


def _clip(a, a_min=None, a_max=None, **kw):
    if not (is_sym(a) or is_sym(a_min) or is_sym(a_max)):
        return np.clip(a, a_min, a_max, **kw)

    def f(x):
        e = _z(x)
        if a_min is not None:
            lo = _z(a_min)
            if lo.is_int() != e.is_int():
                lo, e = _real(lo), _real(e)
            e = z3.If(e < lo, lo, e)
        if a_max is not None:
            hi = _z(a_max)
            if hi.is_int() != e.is_int():
                hi, e = _real(hi), _real(e)
            e = z3.If(e > hi, hi, e)
        return SNum(e)

    return _map(f, a)


def _minimum(a, b, out=None, **kw):
    if out is not None:
        out[...] = _minimum(a, b)
        return out
    if not (is_sym(a) or is_sym(b)):
        return np.minimum(a, b, **kw)
    aa, bb = np.broadcast_arrays(_oarr(a), _oarr(b))
    out = np.empty(aa.shape, dtype=object)
    for i in np.ndindex(aa.shape):
        out[i] = sx.smin(aa[i], bb[i])
    return out if out.shape else out[()]


def _maximum(a, b, out=None, **kw):
    if out is not None:
        out[...] = _maximum(a, b)
        return out
    if not (is_sym(a) or is_sym(b)):
        return np.maximum(a, b, **kw)
    aa, bb = np.broadcast_arrays(_oarr(a), _oarr(b))
    out = np.empty(aa.shape, dtype=object)
    for i in np.ndindex(aa.shape):
        out[i] = sx.smax(aa[i], bb[i])
    return out if out.shape else out[()]


def _isclose(a, b, rtol=1e-5, atol=1e-8, **kw):
    if not (is_sym(a) or is_sym(b)):
        return np.isclose(a, b, rtol=rtol, atol=atol, **kw)
    aa, bb = np.broadcast_arrays(_oarr(a), _oarr(b))
    out = np.empty(aa.shape, dtype=object)
    for i in np.ndindex(aa.shape):
        if aa[i] is None or bb[i] is None:  # np.array(None, float) is nan, and nan is close to nothing
            out[i] = False
        else:
            out[i] = SBool(sx.zclose(aa[i], bb[i], rtol, atol))
    return out if out.shape else out[()]


def _allclose(a, b, rtol=1e-5, atol=1e-8, **kw):
    if not (is_sym(a) or is_sym(b)):
        return np.allclose(a, b, rtol=rtol, atol=atol, **kw)
    r = _isclose(a, b, rtol, atol)
    r = _oarr(r)
    return SBool(z3.And(*[_zb(v) for v in r.ravel()])) if r.size else True


def _all(a, axis=None, **kw):
    if not is_sym(a):
        return np.all(a, axis=axis, **kw)
    a = _oarr(a)
    if axis is None:
        vals = [_tobool(v) for v in a.ravel()]
        return SBool(z3.And(*vals)) if vals else True
    return np.apply_along_axis(lambda v: _all(v), axis, a)


def _any(a, axis=None, **kw):
    if not is_sym(a):
        return np.any(a, axis=axis, **kw)
    a = _oarr(a)
    if axis is None:
        vals = [_tobool(v) for v in a.ravel()]
        return SBool(z3.Or(*vals)) if vals else False
    return np.apply_along_axis(lambda v: _any(v), axis, a)


def _tobool(v):
    if isinstance(v, SBool):
        return v.e
    if isinstance(v, SNum):
        return v.e != 0
    return z3.BoolVal(bool(v))


def _asarray(x, dtype=None, **kw):
    if is_sym(x):
        a = _oarr(x)
        if dtype is not None and np.dtype(dtype).kind == "f":
            a = _map(sx.sfloat, a) if a.shape else _oarr(sx.sfloat(a[()]))
        if dtype is not None and np.dtype(dtype).kind in "iu":
            a = _map(sx.sint, a) if a.shape else _oarr(sx.sint(a[()]))
        return a
    return np.asarray(x, dtype=dtype, **kw)


def _array(x, dtype=None, **kw):
    if is_sym(x):
        kw.pop("copy", None)
        return _asarray(x, dtype).copy()
    return np.array(x, dtype=dtype, **kw)


def _linspace(start, stop, num=50, endpoint=True, retstep=False, dtype=None, **kw):
    if not (is_sym(start) or is_sym(stop) or is_sym(num)):
        return np.linspace(start, stop, num, endpoint=endpoint, retstep=retstep, dtype=dtype, **kw)
    n = num.__index__() if isinstance(num, SNum) else int(num)
    if isinstance(endpoint, SBool):
        endpoint = bool(endpoint)
    div = (n - 1) if endpoint else n
    out = np.empty(n, dtype=object)
    start_ = start if isinstance(start, SNum) else SNum(_real(_z(start)))
    if div > 0:
        step = (stop - start_) / div
    else:
        step = stop - start_
    for i in range(n):
        out[i] = start_ + step * i if div > 0 else start_ + 0 * step
    if endpoint and n > 1:
        out[-1] = stop if isinstance(stop, SNum) else SNum(_real(_z(stop)))
    return (out, step) if retstep else out


def _arange(*a, **kw):
    if not any(is_sym(x) for x in a):
        return np.arange(*a, **kw)
    a = [x.__index__() if isinstance(x, SNum) and x.is_int else x for x in a]
    if not any(is_sym(x) for x in a):
        return np.arange(*a, **kw)
    raise NotImplementedError("arange with symbolic reals")


def _cumsum(a, axis=None, **kw):
    if not is_sym(a):
        return np.cumsum(a, axis=axis, **kw)
    a = _oarr(a)
    if a.ndim == 1 or axis is None:
        out = np.empty(a.size, dtype=object)
        acc = 0
        for i, v in enumerate(a.ravel()):
            acc = acc + v
            out[i] = acc
        return out
    return np.apply_along_axis(_cumsum, axis, a)


def _digitize(x, bins, right=False):
    """np.digitize for increasing bins: i such that bins[i-1] <= x < bins[i]."""
    if not (is_sym(x) or is_sym(bins)):
        return np.digitize(x, bins, right=right)
    bins = _oarr(bins)

    def f(v):
        idx = z3.IntVal(0)
        for b in bins:
            cond = (_z(v) > _z(b)) if right else (_z(v) >= _z(b))
            idx = idx + z3.If(cond, z3.IntVal(1), z3.IntVal(0))
        return SNum(idx)

    return _map(f, x)


def _arctan2(y, x):
    if not (is_sym(y) or is_sym(x)):
        return np.arctan2(y, x)
    yy, xx = np.broadcast_arrays(_oarr(y), _oarr(x))
    out = np.empty(yy.shape, dtype=object)
    c = Ctx.cur
    for i in np.ndindex(yy.shape):
        ye, xe = _real(_z(yy[i])), _real(_z(xx[i]))
        t = sx.ATAN2(ye, xe)
        r = (SNum(xe) * SNum(xe) + SNum(ye) * SNum(ye)).sqrt().e
        co, si = sx._trig(t)
        c.pc += [r * co == xe, r * si == ye, z3.Implies(r == 0, t == 0), t <= sx.PI, t >= -sx.PI]
        out[i] = SNum(t)
    return out if out.shape else out[()]


def _angle(z):
    def f(v):
        v = SComplex.of(v)
        return _arctan2(v.im, v.re)

    return _map(f, z)


def _hypot(a, b):
    if not (is_sym(a) or is_sym(b)):
        return np.hypot(a, b)
    return _sqrt(a * a + b * b)


def _round(a, decimals=0, **kw):
    if not is_sym(a):
        return np.round(a, decimals, **kw)
    return _map(lambda v: v.rint() if isinstance(v, SNum) else np.round(v), a)


def _sum_sq_abs(a):
    a = _oarr(a)
    tot = 0
    for v in a.ravel():
        tot = tot + (v.abs2() if isinstance(v, (SComplex, Polar)) else v * v)
    return tot


def _linalg_norm(a, axis=None, **kw):
    if not is_sym(a):
        return np.linalg.norm(a, axis=axis, **kw)
    a = _oarr(a)
    if axis is None:
        return _sum_sq_abs(a).sqrt()
    return np.apply_along_axis(lambda v: _sum_sq_abs(v).sqrt(), axis, a)


def _real_part(a):
    if not is_sym(a):
        return np.real(a)
    return _map(lambda v: v.real if isinstance(v, (SComplex, SNum)) else np.real(v), a)


def _imag_part(a):
    if not is_sym(a):
        return np.imag(a)
    return _map(lambda v: v.imag if isinstance(v, (SComplex, SNum)) else np.imag(v), a)


def _conj(a):
    if not is_sym(a):
        return np.conj(a)
    return _map(lambda v: v.conjugate() if hasattr(v, "conjugate") else v, a)


def _iscomplexobj(x):
    if is_sym(x):
        return any(isinstance(v, (SComplex, Polar, PSum, complex)) for v in _oarr(x).ravel())
    return np.iscomplexobj(x)


def _isscalar(x):
    return isinstance(x, (SNum, SBool)) or np.isscalar(x)


def _floor_divide(a, b):
    return a // b


def _prod(a, axis=None, **kw):
    if not is_sym(a):
        return np.prod(a, axis=axis, **kw)
    a = _oarr(a)
    r = 1
    for v in a.ravel():
        r = r * v
    return r


# ---- FFT models -------------------------------------------------------------


def fftfreq(n, d=1.0):
    """exact j/(n d): also for concrete d, so that 1/3 is one third and not the nearest double"""
    n = n.__index__() if isinstance(n, SNum) else int(n)
    out = np.empty(n, dtype=object)
    for i in range(n):
        j = i if i < (n + 1) // 2 else i - n
        out[i] = SNum(z3.simplify(z3.RealVal(j) / (z3.RealVal(n) * _real(_z(d)))))
    return out


def _dft_matrix(n, inverse=False):
    """Exact DFT matrix for n in {1,2,4} (twiddles in {1,-1,i,-i})."""
    assert n in (1, 2, 4), "exact DFT model only for axis lengths 1, 2, 4"
    tw = {0: (1, 0), 1: (0, -1), 2: (-1, 0), 3: (0, 1)}
    M = np.empty((n, n), dtype=object)
    for j in range(n):
        for k in range(n):
            q = (j * k * (4 // n)) % 4 if n > 1 else 0
            re, im = tw[q]
            if inverse:
                im = -im
            M[j, k] = (re, im)
    return M


def _dft_axis(a, axis, inverse):
    a = np.moveaxis(a, axis, -1)
    n = a.shape[-1]
    M = _dft_matrix(n, inverse)
    out = np.empty(a.shape, dtype=object)
    for idx in np.ndindex(a.shape[:-1]):
        for j in range(n):
            acc = SComplex(0, 0)
            for k in range(n):
                re, im = M[j, k]
                v = SComplex.of(a[idx + (k,)])
                if (re, im) == (1, 0):
                    t = v
                elif (re, im) == (-1, 0):
                    t = -v
                elif (re, im) == (0, 1):
                    t = SComplex(-v.im, v.re)
                else:
                    t = SComplex(v.im, -v.re)
                acc = acc + t
            if inverse:
                acc = acc / n
            out[idx + (j,)] = acc
    return np.moveaxis(out, -1, axis)


def exact_fftn(a, axes=(-2, -1), inverse=False, **kw):
    a = _oarr(a)
    for ax in axes:
        a = _dft_axis(a, ax, inverse)
    return np.ascontiguousarray(a).view(SymArr) if isinstance(a, np.ndarray) and a.dtype == object else a


class _ExactFFT:
    fftfreq = staticmethod(fftfreq)

    @staticmethod
    def fft2(a, axes=(-2, -1), **kw):
        return exact_fftn(a, axes, False)

    @staticmethod
    def ifft2(a, axes=(-2, -1), **kw):
        return exact_fftn(a, axes, True)

    @staticmethod
    def fftn(a, axes=None, **kw):
        return exact_fftn(a, axes if axes is not None else tuple(range(_oarr(a).ndim)), False)

    @staticmethod
    def ifftn(a, axes=None, **kw):
        return exact_fftn(a, axes if axes is not None else tuple(range(_oarr(a).ndim)), True)

    @staticmethod
    def fft(a, axis=-1, **kw):
        return exact_fftn(a, (axis,), False)

    @staticmethod
    def ifft(a, axis=-1, **kw):
        return exact_fftn(a, (axis,), True)

    fftshift = staticmethod(np.fft.fftshift)
    ifftshift = staticmethod(np.fft.ifftshift)


def _reduce_minmax(fn, npf):
    def f(a, axis=None, **kw):
        if not is_sym(a):
            return npf(a, axis=axis, **kw)
        a = _oarr(a)
        if axis is None:
            return fn(list(a.ravel()))
        moved = np.moveaxis(a, axis, 0)
        out = np.empty(moved.shape[1:], dtype=object)
        for i in np.ndindex(out.shape):
            out[i] = fn([moved[(k,) + i] for k in range(moved.shape[0])])
        return out.view(SymArr)
    return f


def _ptp(a, axis=None, **kw):
    if not is_sym(a):
        return np.ptp(a, axis=axis, **kw)
    return _reduce_minmax(sx.smax, np.max)(a, axis) - _reduce_minmax(sx.smin, np.min)(a, axis)


def _mean(a, axis=None, **kw):
    if not is_sym(a):
        return np.mean(a, axis=axis, **kw)
    a = _oarr(a)
    if axis is None:
        tot = 0
        for v in a.ravel():
            tot = tot + v
        return tot / a.size
    return np.sum(a, axis=axis) / a.shape[axis]


def _unravel_index(k, shape, **kw):
    if not is_sym(k):
        return np.unravel_index(k, shape, **kw)
    a = _oarr(k)
    conc = np.zeros(a.shape, dtype=np.intp)
    for i in np.ndindex(a.shape):
        conc[i] = a[i].__index__() if isinstance(a[i], SNum) else int(a[i])
    return np.unravel_index(conc, shape, **kw)


class _AddAt:
    """np.add with an `at` that accepts symbolic integer indices (case-split) and symbolic values"""

    def __call__(self, *a, **k):
        return np.add(*a, **k)

    @staticmethod
    def at(array, indices, values):
        idx = [np.asarray(_oarr(i), dtype=object) for i in indices]
        idx = np.broadcast_arrays(*idx, _oarr(values))
        vals = idx[-1]
        for pos in np.ndindex(vals.shape):
            key = tuple(i[pos].__index__() if isinstance(i[pos], SNum) else int(i[pos]) for i in idx[:-1])
            array[key] = array[key] + vals[pos]


class ShimNP:
    """delegating numpy shim"""

    def __init__(self, **over):
        self._over = over

    def __getattr__(self, k):
        o = self.__dict__["_over"]
        if k in o:
            return o[k]
        return getattr(np, k)


def _pyf(f):
    return lambda v: f(v)


_cos = _unary("cos", math.cos)
_sin = _unary("sin", math.sin)
_tan = _unary("tan", math.tan)
_exp = _unary("exp", math.exp)
_sqrt = _unary("sqrt", lambda v: np.sqrt(v))
_floor = _unary("floor", lambda v: float(math.floor(v)))
_ceil = _unary("ceil", lambda v: float(math.ceil(v)))
_rint = _unary("rint", lambda v: float(np.rint(v)))


class _Linalg:
    norm = staticmethod(_linalg_norm)

    def __getattr__(self, k):
        return getattr(np.linalg, k)


def make_shim(pi=False, **over):
    d = dict(
        cos=_cos, sin=_sin, tan=_tan, exp=_exp, sqrt=_sqrt, floor=_floor, ceil=_ceil, rint=_rint,
        abs=_sabs, absolute=_sabs, sign=_sign, where=_where, clip=_clip, minimum=_minimum, maximum=_maximum,
        isclose=_isclose, allclose=_allclose, all=_all, any=_any, asarray=_asarray, array=_array,
        linspace=_linspace, arange=_arange, cumsum=_cumsum, digitize=_digitize, arctan2=_arctan2,
        angle=_angle, hypot=_hypot, round=_round, around=_round, real=_real_part, imag=_imag_part,
        conj=_conj, conjugate=_conj, isscalar=_isscalar, iscomplexobj=_iscomplexobj, add=_AddAt(), unravel_index=_unravel_index,
        max=_reduce_minmax(sx.smax, np.max), min=_reduce_minmax(sx.smin, np.min), amax=_reduce_minmax(sx.smax, np.max), amin=_reduce_minmax(sx.smin, np.min), ptp=_ptp, mean=_mean, finfo=(lambda dt: np.finfo(np.float64) if (dt is object or np.dtype(dt) == object) else np.finfo(dt)), prod=_prod, fft=_ExactFFT, linalg=_Linalg(),
        float32=object, float64=object, complex64=object, complex128=object,
        ones=_int_alloc("ones"), zeros=_int_alloc("zeros"), empty=_int_alloc("empty"),
    )
    if pi:
        d["pi"] = SNum(sx.PI)
    d.update(over)
    return ShimNP(**d)


def _turns(x):
    """x / (2 PI) with the PI factor cancelled syntactically when every monomial of x carries one"""
    d = z3.simplify(x, som=True)
    mons = d.children() if z3.is_app(d) and d.decl().kind() == z3.Z3_OP_ADD else [d]
    out = []
    for m in mons:
        fac = m.children() if z3.is_app(m) and m.decl().kind() == z3.Z3_OP_MUL else [m]
        idx = [k for k, f in enumerate(fac) if f.eq(sx.PI)]
        if not idx:
            if z3.is_rational_value(m) and m.as_fraction() == 0:
                continue
            return x / (2 * sx.PI)
        rest = [f for k, f in enumerate(fac) if k != idx[0]]
        t = z3.RealVal(1)
        for f in rest:
            t = t * f
        out.append(t)
    tot = z3.RealVal(0)
    for t in out:
        tot = tot + t
    return z3.simplify(tot / 2, som=True)


def complex_exponential(x):
    """Model of abtem.core.complex.complex_exponential: exp(i x) as a unit phasor, turns = x/(2 PI)."""
    x = _oarr(x)
    out = np.empty(x.shape, dtype=object)
    for i in np.ndindex(x.shape):
        out[i] = sx.CExp(_turns(_real(_z(x[i]))))
    return (out.view(SymArr) if out.shape else out[()])


def exp_dispatch(x):
    """np.exp that turns purely imaginary SComplex arguments into phasors."""
    def g(v):
        if isinstance(v, SComplex):
            re = z3.simplify(v.re.e)
            if z3.is_rational_value(re) and re.as_fraction() == 0:
                return sx.CExp(_real(v.im.e) / (2 * sx.PI))
            raise NotImplementedError("exp of general complex")
        if isinstance(v, SNum):
            return v.exp()
        return np.exp(v)
    if not is_sym(x):
        return np.exp(x)
    return _map(g, x)
