"""SX: symbolic shadow execution of real abTEM functions over z3.

Python values are replaced by wrappers over z3 terms; the real function is simply
called.  `SBool.__bool__` forks (replay-DFS), `SNum.__index__` case-splits over all
solver-feasible integers.  See DESIGN.md section 2.1.
"""
import fractions
import math
import numbers
import time

import numpy as np
import z3


class Abort(BaseException):
    """Raised to abandon an infeasible path (BaseException so `except Exception` in
    the code under test cannot swallow it)."""


class PathLimit(BaseException):
    pass


def _guarded_check(solver, assumptions, timeout_ms):
    """solver.check with a watchdog: nlsat occasionally ignores the timeout parameter, so a timer thread
    interrupts the context a little after the deadline (the result is then `unknown`)."""
    import threading

    timer = threading.Timer(timeout_ms / 1000.0 * 1.5 + 3.0, z3.main_ctx().interrupt)
    timer.daemon = True
    timer.start()
    try:
        return solver.check(*assumptions)
    except z3.Z3Exception:
        return z3.unknown
    finally:
        timer.cancel()


SECOND = {"budget": 0, "seen": set(), "bin": "/usr/bin/z3", "timeout_s": 20}


def second_opinion(formulas):
    """Decide the same formula set with the independent z3 4.8.12 binary (the primary is the 5.x wheel).
    Returns 'unsat' | 'sat' | 'unknown' | 'error'.  Any `(error` line in the output is 'error' (inconclusive)."""
    import os
    import subprocess
    import tempfile

    if not os.path.exists(SECOND["bin"]):
        return "error"
    s2 = z3.Solver()
    for f in formulas:
        s2.add(f)
    fd, path = tempfile.mkstemp(suffix=".smt2", prefix="second_")
    try:
        with os.fdopen(fd, "w") as fh:
            fh.write(s2.to_smt2())
        try:
            p = subprocess.run([SECOND["bin"], f"-T:{SECOND['timeout_s']}", path], capture_output=True, text=True,
                               timeout=SECOND["timeout_s"] + 10)
        except subprocess.TimeoutExpired:
            return "unknown"
        out = p.stdout.strip().splitlines()
        if any("(error" in ln for ln in out) or not out:
            return "error"
        return out[0] if out[0] in ("sat", "unsat", "unknown") else ("unknown" if "timeout" in out[0] else "error")
    finally:
        try:
            os.remove(path)
        except OSError:
            pass


class Ctx:
    cur = None

    def __init__(self, timeout_ms=20000, pin=None):
        self.s = z3.Solver()
        self.s.set("timeout", timeout_ms)
        self.timeout_ms = timeout_ms
        self.pc = []
        self.prefix = []
        self.trace = []
        self.pending = []
        self.nq = 0
        self.tq = 0.0
        self.fresh = 0
        self.inputs = {}  # name -> z3 const
        self.defs = {}  # fresh name -> ('sqrt', expr) for the float evaluator
        self.results = []  # obligation records of this path
        self.outputs = {}  # name -> z3 expr (for encoding validation)
        self.pin = pin  # dict name -> concrete value (validation mode)
        self.branch_unknown = 0
        self.notes = []

    # ---- inputs -------------------------------------------------------
    def _pinned(self, name, v):
        if self.pin is not None and name in self.pin:
            self.pc.append(v == _z(self.pin[name]))

    def real(self, name, lo=None, hi=None, lo_strict=False, hi_strict=False):
        v = z3.Real(name)
        self.inputs[name] = v
        if lo is not None:
            self.pc.append(v > _z(lo) if lo_strict else v >= _z(lo))
        if hi is not None:
            self.pc.append(v < _z(hi) if hi_strict else v <= _z(hi))
        self._pinned(name, v)
        return SNum(v)

    def int(self, name, lo=None, hi=None):
        v = z3.Int(name)
        self.inputs[name] = v
        if lo is not None:
            self.pc.append(v >= lo)
        if hi is not None:
            self.pc.append(v <= hi)
        self._pinned(name, v)
        return SNum(v)

    def bool(self, name):
        v = z3.Bool(name)
        self.inputs[name] = v
        if self.pin is not None and name in self.pin:
            self.pc.append(v == z3.BoolVal(bool(self.pin[name])))
        return SBool(v)

    def assume(self, cond):
        self.pc.append(_zb(cond))

    def new_real(self, tag="t"):
        self.fresh += 1
        return z3.Real(f"{tag}!{self.fresh}")

    def new_int(self, tag="i"):
        self.fresh += 1
        return z3.Int(f"{tag}!{self.fresh}")

    # ---- solver -------------------------------------------------------
    def check(self, *extra):
        self.nq += 1
        t = time.time()
        r = _guarded_check(self.s, list(self.pc) + list(extra), self._cur_timeout())
        self.tq += time.time() - t
        return r

    def reach_check(self):
        """is the final path condition satisfiable (vacuity guard)?  nlsat on the purified formulas first, then the
        default solver, both with a short budget; `unknown` is reported as such and is not treated as vacuous"""
        pur = _purify_for_nlsat(list(self.pc))
        if pur is not None:
            self.nq += 1
            t1 = time.time()
            ns = _nlsat_solver()
            ns.set("timeout", 10000)
            r = _guarded_check(ns, pur[0], 10000)
            self.tq += time.time() - t1
            if r != z3.unknown:
                return str(r)
        self.set_timeout(min(10000, self.timeout_ms))
        r = self.check()
        self.set_timeout(self.timeout_ms)
        return str(r)

    def _check_with(self, hyps, extra):
        self.nq += 1
        t = time.time()
        r = _guarded_check(self.s, list(hyps) + [extra], self._cur_timeout())
        self.tq += time.time() - t
        return r

    def _cur_timeout(self):
        return getattr(self, "_tmo_now", self.timeout_ms)

    def set_timeout(self, ms):
        self._tmo_now = ms
        self.s.set("timeout", ms)

    def branch(self, cond):
        cond = z3.simplify(cond)
        if z3.is_true(cond):
            return True
        if z3.is_false(cond):
            return False
        i = len(self.trace)
        if i < len(self.prefix):
            v = self.prefix[i]
        else:
            # feasibility against the hypotheses that share a symbol with the condition (cone of influence):
            # `unsat` under fewer hypotheses is still `unsat`; a spurious `sat` only adds a path whose
            # obligations are then proved under the full path condition
            self.set_timeout(min(2000, self.timeout_ms))
            t = self.check(cond)
            f = self.check(z3.Not(cond))
            self.set_timeout(self.timeout_ms)
            if t == z3.unknown or f == z3.unknown:
                cone = _cone(self.pc, cond)
                if t == z3.unknown:
                    t = self._check_with(cone, cond)
                if f == z3.unknown:
                    f = self._check_with(cone, z3.Not(cond))
            if t == z3.unknown or f == z3.unknown:
                self.branch_unknown += 1
            tf = t != z3.unsat
            ff = f != z3.unsat
            if tf and ff:
                v = True
                self.pending.append(self.trace + [False])
            elif tf:
                v = True
            elif ff:
                v = False
            else:
                raise Abort()
        self.trace.append(v)
        self.pc.append(cond if v else z3.Not(cond))
        return v

    def concretize(self, e):
        """Case-split an integer (or rational) term over every solver-feasible value."""
        e = z3.simplify(e)
        if z3.is_int_value(e):
            return e.as_long()
        if z3.is_rational_value(e):
            return float(e.as_fraction())
        i = len(self.trace)
        excl = []
        if i < len(self.prefix):
            tag = self.prefix[i]
            if tag[0] == "v":
                self.trace.append(tag)
                self.pc.append(e == tag[1])
                return tag[1]
            excl = list(tag[1])
        ex = [e != x for x in excl]
        r = self.check(*ex)
        if r != z3.sat:
            raise Abort()
        mv = self.s.model().eval(e, model_completion=True)
        if not (z3.is_int_value(mv) or z3.is_rational_value(mv)):
            # the model holds algebraic numbers / partial functions: name the value and ask again
            k = self.new_int("cz") if e.is_int() else self.new_real("cz")
            if self.check(*ex, k == e) != z3.sat:
                raise Abort()
            mv = self.s.model().eval(k, model_completion=True)
        v = mv.as_long() if z3.is_int_value(mv) else mv.as_fraction()
        if self.check(*ex, e != v) != z3.unsat:
            self.pending.append(self.trace + [("n", excl + [v])])
        self.trace.append(("v", v))
        self.pc.append(e == v)
        return v

    # ---- obligations --------------------------------------------------
    def prove(self, name, prop, replay=None, info=None):
        """Ask the solver whether `prop` can fail on this path."""
        p = _zb(prop)
        t0 = time.time()
        reach = "deferred"  # decided once per path by explore(): pc only grows, so the final pc being sat covers all
        np_ = z3.Not(p)
        relaxed = False
        r = z3.unknown
        big = sum(len(f.sexpr()) for f in self.pc[-40:]) + len(np_.sexpr()) > 20000

        def _abstraction():
            # every square t*t of a non-constant term becomes a fresh non-negative real.  Any model of the
            # original extends to the abstraction, so `unsat` carries over (sat/unknown are not used).
            fs, side = _abstract_squares(list(self.pc) + [np_])
            self.nq += 1
            t1 = time.time()
            r3 = _guarded_check(self.s, fs + side, self._cur_timeout())
            self.tq += time.time() - t1
            return r3

        # past the case's time budget nothing more is asked of the solver: the obligation is reported `unknown` (after the cheap
        # float-evaluation search below), so that a case ends with its partial results instead of being killed at the hard limit
        dl = getattr(self, "deadline", None)
        past = dl is not None and time.time() > dl
        if not past:
            # cone of influence: only the hypotheses that (transitively) share a symbol with the goal.  Dropping
            # hypotheses is sound for `unsat`; a `sat` here is not used.
            sliced = _cone(self.pc, np_)
            if len(sliced) < len(self.pc):
                pur0 = _purify_for_nlsat(sliced + [np_])
                self.nq += 1
                t1 = time.time()
                if pur0 is not None:
                    ns = _nlsat_solver()
                    ns.set("timeout", min(10000, self.timeout_ms))
                    r0 = _guarded_check(ns, pur0[0], min(10000, self.timeout_ms))
                else:
                    self.set_timeout(min(5000, self.timeout_ms))
                    r0 = _guarded_check(self.s, sliced + [np_], self._cur_timeout())
                self.tq += time.time() - t1
                if r0 == z3.unsat:
                    r, relaxed = z3.unsat, True
            # pure non-linear real arithmetic: the nlsat tactic alone is far stronger than the default combination
            pur = _purify_for_nlsat(list(self.pc) + [np_]) if r == z3.unknown else None
            if pur is not None:
                self.nq += 1
                t1 = time.time()
                ns = _nlsat_solver()
                ns.set("timeout", min(10000, self.timeout_ms))
                rn = _guarded_check(ns, pur[0], min(10000, self.timeout_ms))
                self.tq += time.time() - t1
                if rn == z3.unsat:
                    r, relaxed = z3.unsat, True
                elif rn == z3.sat and not pur[1]:
                    r = z3.sat
                    self._alt_model = ns.model()
            if r == z3.unknown and big:
                self.set_timeout(min(15000, self.timeout_ms))
                if _abstraction() == z3.unsat:
                    r, relaxed = z3.unsat, True
            if r == z3.unknown:
                self.set_timeout(min(5000, self.timeout_ms))
                r = self.check(np_)
            if r == z3.unknown:
                # dropping hypotheses is sound for `unsat`: retry without the integer-rounding facts of the path
                self.set_timeout(self.timeout_ms)
                pc2 = [f for f in self.pc if not _has_toint(f)]
                if len(pc2) < len(self.pc):
                    self.nq += 1
                    t1 = time.time()
                    r2 = _guarded_check(self.s, pc2 + [np_], self.timeout_ms)
                    self.tq += time.time() - t1
                    if r2 == z3.unsat:
                        r, relaxed = r2, True
                if r == z3.unknown and not big:
                    if _abstraction() == z3.unsat:
                        r, relaxed = z3.unsat, True
                if r == z3.unknown and not big:
                    r = self.check(np_)
        self.set_timeout(self.timeout_ms)
        fals = None
        if r == z3.unknown and replay is not None:
            # the solver gave up: look for a counterexample by evaluating the path condition and the negated
            # obligation in floats at random points of the input box.  A hit is only a CANDIDATE (it is replayed on
            # the real code like any solver model); a miss leaves the obligation `unknown`.
            fals = self._falsify(np_, tries=60 if past else 300, points=3 if past else 12) if not (past and time.time() > dl + 90) else None
            if fals is not None:
                r = z3.sat
        rec = {"name": name, "result": str(r), "reach": str(reach), "path": len(self.results), "info": info,
               "secs": round(time.time() - t0, 2), "relaxed": relaxed}
        if fals is not None:
            rec.update(model=fals, replay=replay, _neg=z3.Not(p), found_by="float evaluation after solver unknown")
            self.results.append(rec)
            return False
        if r == z3.unsat and SECOND["budget"] > 0 and name not in SECOND["seen"]:
            SECOND["seen"].add(name)
            SECOND["budget"] -= 1
            rec["second"] = second_opinion(list(self.pc) + [np_])
        if r == z3.sat:
            rec["model"] = self.model_values(getattr(self, "_alt_model", None))
            self._alt_model = None
            rec["replay"] = replay
            rec["_neg"] = z3.Not(p)
        self.results.append(rec)
        return r == z3.unsat

    def _falsify(self, neg, tries=300, points=12):
        import random
        from .feval import feval

        rnd = random.Random(20260922 + len(self.results))
        box = {}
        for f in self.pc:
            if not z3.is_app(f) or f.num_args() != 2:
                continue
            a, b = f.arg(0), f.arg(1)
            k = f.decl().kind()
            if z3.is_const(a) and a.decl().kind() == z3.Z3_OP_UNINTERPRETED and (z3.is_rational_value(b) or z3.is_int_value(b)):
                v = float(b.as_fraction()) if z3.is_rational_value(b) else b.as_long()
                lo, hi = box.get(str(a), (None, None))
                if k in (z3.Z3_OP_GE, z3.Z3_OP_GT):
                    lo = v if lo is None else max(lo, v)
                elif k in (z3.Z3_OP_LE, z3.Z3_OP_LT):
                    hi = v if hi is None else min(hi, v)
                box[str(a)] = (lo, hi)
        names = list(self.inputs.items())
        # constants the harness introduced without registering them as inputs (e.g. a symbolic wavelength): free reals too.
        # Only the cone of influence of the goal is evaluated, so unrelated fresh symbols do not spoil a point.
        cone = _cone(self.pc, neg)
        extra = set(_vars_of(neg))
        for f in cone:
            extra |= set(_vars_of(f))
        extra -= {"PI"} | set(self.inputs) | set(self.defs)
        names += [(nm, z3.Real(nm)) for nm in sorted(extra)]
        for _ in range(tries):
            env = {}
            ok = True
            for nm, v in names:
                lo, hi = box.get(nm, (None, None))
                srt = v.sort().kind()
                if srt == z3.Z3_BOOL_SORT:
                    env[nm] = rnd.random() < 0.5
                elif srt == z3.Z3_INT_SORT:
                    lo_i = int(lo) if lo is not None else (int(hi) - 6 if hi is not None else -3)
                    hi_i = int(hi) if hi is not None else lo_i + 6
                    env[nm] = rnd.randint(lo_i, max(lo_i, hi_i))
                elif srt == z3.Z3_REAL_SORT:
                    lo_r = lo if lo is not None else (hi - 4.0 if hi is not None else -2.0)
                    hi_r = hi if hi is not None else lo_r + 4.0
                    env[nm] = round(rnd.uniform(lo_r, hi_r), 3)
                else:
                    ok = False
                    break
            if not ok:
                return None
            try:
                cache = {}
                if all(feval(f, env, self.defs, cache, tol=1e-9) for f in cone) and feval(neg, env, self.defs, cache, tol=1e-7):
                    return {k: v for k, v in env.items() if k in self.inputs}
            except Exception:  # noqa: BLE001  unbound fresh symbol, division by zero, ...: not a usable point
                continue
        # relational path conditions (|k| * wavelength < cutoff ...) are rarely met by box sampling: let the solver produce points
        # of the path condition ALONE (cheap), pushed around by random half-space constraints, and evaluate the goal there in floats
        for t in range(points):
            s2 = z3.Solver()
            s2.set("timeout", 2000)
            s2.set("random_seed", t)
            s2.add(*cone)
            if t:
                for nm, v in names:
                    if v.sort().kind() == z3.Z3_REAL_SORT and rnd.random() < 0.6:
                        lo, hi = box.get(nm, (None, None))
                        lo_r = lo if lo is not None else (hi - 4.0 if hi is not None else -2.0)
                        hi_r = hi if hi is not None else lo_r + 4.0
                        cut = z3.RealVal(str(round(rnd.uniform(lo_r, hi_r), 2)))
                        s2.add(v >= cut if rnd.random() < 0.5 else v <= cut)
            try:
                if _guarded_check(s2, [], 2000) != z3.sat:
                    continue
                m = s2.model()
                env = {}
                for nm, v in names:
                    env[nm] = _pyval(m.eval(v, model_completion=True))
                    if isinstance(env[nm], fractions.Fraction):
                        env[nm] = float(env[nm])
                cache = {}
                if all(feval(f, env, self.defs, cache, tol=1e-9) for f in cone) and feval(neg, env, self.defs, cache, tol=1e-7):
                    return {k: v for k, v in env.items() if k in self.inputs}
            except Exception:  # noqa: BLE001
                continue
        return None

    def canary(self, name, wrong_prop):
        """A deliberately wrong specification; must be refutable (sat) somewhere."""
        self.set_timeout(min(5000, self.timeout_ms))
        r = self.check(z3.Not(_zb(wrong_prop)))
        self.set_timeout(self.timeout_ms)
        self.results.append({"name": name, "result": str(r), "canary": True})

    def output(self, name, val):
        self.outputs[name] = val

    def model_values(self, model=None):
        m = model if model is not None else self.s.model()
        out = {}
        for k, v in self.inputs.items():
            mv = m.eval(v, model_completion=True)
            out[k] = _pyval(mv)
        return out

    def more_models(self, neg, n=4):
        """Further models of pc & neg, blocking the previous input assignments."""
        block = []
        got = []
        for _ in range(n):
            m = self.s.model()
            cl = [v != m.eval(v, model_completion=True) for v in self.inputs.values()]
            if not cl:
                break
            block.append(z3.Or(*cl))
            if self.check(neg, *block) != z3.sat:
                break
            got.append(self.model_values())
        return got


def _has_toint(f, _cache={}):
    k = f.get_id()
    if k in _cache:
        return _cache[k]
    todo, seen, found = [f], set(), False
    while todo:
        t = todo.pop()
        i = t.get_id()
        if i in seen:
            continue
        seen.add(i)
        if z3.is_app(t) and t.decl().kind() in (z3.Z3_OP_TO_INT, z3.Z3_OP_IS_INT, z3.Z3_OP_IDIV, z3.Z3_OP_MOD):
            found = True
            break
        todo.extend(t.children())
    _cache[k] = found
    return found


_VARS = {}


def _vars_of(f):
    k = f.get_id()
    if k in _VARS:
        return _VARS[k]
    out, todo, seen = set(), [f], set()
    while todo:
        t = todo.pop()
        i = t.get_id()
        if i in seen:
            continue
        seen.add(i)
        if z3.is_app(t):
            if t.num_args() == 0:
                if t.decl().kind() == z3.Z3_OP_UNINTERPRETED:
                    out.add(t.decl().name())
            else:
                todo.extend(t.children())
    _VARS[k] = frozenset(out)
    return _VARS[k]


def _cone(pc, goal):
    """hypotheses sharing a symbol with the goal, transitively (PI is not counted as a link)"""
    want = set(_vars_of(goal)) - {"PI"}
    rest = [(f, _vars_of(f) - {"PI"}) for f in pc]
    keep = []
    changed = True
    while changed:
        changed = False
        nxt = []
        for f, vs in rest:
            if not vs or (vs & want):
                keep.append(f)
                if vs - want:
                    want |= vs
                    changed = True
            else:
                nxt.append((f, vs))
        rest = nxt
    return keep


_NLSAT = []


def _nlsat_solver():
    if not _NLSAT:
        _NLSAT.append(z3.Tactic("qfnra-nlsat").solver())
    return _NLSAT[0]


def _purify_for_nlsat(formulas):
    """formulas with every uninterpreted application replaced by a fresh real (sound for `unsat`), or None when an
    integer-sorted or otherwise unsupported term occurs.  Returns (formulas, purified_anything)."""
    cache, names = {}, {}
    ok = [True]

    def walk(t):
        k = t.get_id()
        if k in cache:
            return cache[k]
        if z3.is_rational_value(t) or z3.is_true(t) or z3.is_false(t):
            cache[k] = t
            return t
        if t.sort().kind() == z3.Z3_INT_SORT:
            ok[0] = False
            return t
        if not z3.is_app(t):
            ok[0] = False
            return t
        d = t.decl()
        kind = d.kind()
        if kind == z3.Z3_OP_UNINTERPRETED:
            if t.num_args() == 0:
                cache[k] = t
                return t
            key = t.sexpr()
            if key not in names:
                names[key] = z3.Real(f"uf!{len(names)}")
            cache[k] = names[key]
            return names[key]
        if kind == z3.Z3_OP_TO_REAL and z3.is_int_value(t.children()[0]):
            r = z3.RealVal(t.children()[0].as_long())
            cache[k] = r
            return r
        if kind in (z3.Z3_OP_TO_INT, z3.Z3_OP_IS_INT, z3.Z3_OP_IDIV, z3.Z3_OP_MOD, z3.Z3_OP_TO_REAL):
            ok[0] = False
            return t
        new = [walk(c) for c in t.children()]
        if not ok[0]:
            return t
        try:
            r = d(*new) if any(not a.eq(b) for a, b in zip(new, t.children())) else t
        except z3.Z3Exception:
            ok[0] = False
            return t
        cache[k] = r
        return r

    out = []
    for f in formulas:
        out.append(walk(f))
        if not ok[0]:
            return None
    return out, bool(names)


def _abstract_squares(formulas):
    cache, sq = {}, {}
    side = []

    def walk(t):
        k = t.get_id()
        if k in cache:
            return cache[k]
        if not z3.is_app(t) or t.num_args() == 0:
            cache[k] = t
            return t
        ch = t.children()
        if t.decl().kind() == z3.Z3_OP_MUL and len(ch) == 2 and ch[0].eq(ch[1]) and not z3.is_rational_value(ch[0]) \
                and not z3.is_int_value(ch[0]) and ch[0].num_args() > 0:
            kk = ch[0].get_id()
            if kk not in sq:
                v = z3.Real(f"sq!{len(sq)}") if ch[0].is_real() else z3.Int(f"sq!{len(sq)}")
                sq[kk] = v
                side.append(v >= 0)
            cache[k] = sq[kk]
            return sq[kk]
        new = [walk(c) for c in ch]
        r = t.decl()(*new) if any(not a.eq(b) for a, b in zip(new, ch)) else t
        cache[k] = r
        return r

    return [walk(f) for f in formulas], side


def _pyval(mv):
    if z3.is_int_value(mv):
        return mv.as_long()
    if z3.is_rational_value(mv):
        return mv.as_fraction()
    if z3.is_true(mv):
        return True
    if z3.is_false(mv):
        return False
    if z3.is_algebraic_value(mv):
        return fractions.Fraction(mv.approx(20).as_fraction())
    return str(mv)


def explore(fn, max_paths=2000, timeout_ms=20000, pin=None, deadline=None):
    """Replay-DFS over all feasible paths of fn(ctx)."""
    stack = [[]]
    paths = []
    stats = {"paths": 0, "aborted": 0, "queries": 0, "solver_s": 0.0, "branch_unknown": 0, "complete": True,
             "errors": []}
    while stack:
        if stats["paths"] >= max_paths or (deadline and time.time() > deadline):
            stats["complete"] = False
            break
        prefix = stack.pop()
        c = Ctx(timeout_ms=timeout_ms, pin=pin)
        c.deadline = deadline
        c.prefix = prefix
        Ctx.cur = c
        try:
            out = fn(c)
            paths.append(c)
            c.ret = out
            if pin is None and any(not r.get("canary") for r in c.results):
                reach = c.reach_check()
                for r in c.results:
                    if r.get("reach") == "deferred":
                        r["reach"] = "sat" if r["result"] == "sat" else reach
        except Abort:
            stats["aborted"] += 1
        stack.extend(c.pending)
        stats["paths"] += 1
        stats["queries"] += c.nq
        stats["solver_s"] += c.tq
        stats["branch_unknown"] += c.branch_unknown
    Ctx.cur = None
    return paths, stats


# ---------------------------------------------------------------------------
# conversions


def _frac(x):
    return fractions.Fraction(x)


def _z(x):
    """Python/wrapper number -> z3 arithmetic term (floats become their exact rational)."""
    if isinstance(x, SNum):
        return x.e
    if isinstance(x, SBool):
        return z3.If(x.e, z3.IntVal(1), z3.IntVal(0))
    if isinstance(x, (bool, np.bool_)):
        return z3.IntVal(int(x))
    if isinstance(x, (int, np.integer)):
        return z3.IntVal(int(x))
    if isinstance(x, (float, np.floating)):
        f = float(x)
        if math.isinf(f) or math.isnan(f):
            raise TypeError("non-finite float")
        return z3.RealVal(fractions.Fraction(f))
    if isinstance(x, fractions.Fraction):
        return z3.RealVal(x)
    if z3.is_expr(x):
        return x
    if isinstance(x, np.ndarray) and x.shape == ():
        return _z(x[()])
    raise TypeError(type(x))


def _zb(x):
    if isinstance(x, SBool):
        return x.e
    if isinstance(x, (bool, np.bool_)):
        return z3.BoolVal(bool(x))
    if z3.is_expr(x):
        return x
    raise TypeError(type(x))


def _real(e):
    return z3.ToReal(e) if e.is_int() else e


def _div(a, b):
    """a / b.  With ctx.div_as_mul set, a quotient by a non-constant term is a fresh q with b != 0 -> q*b == a
    (no division terms reach nlsat, which handles the multiplicative form much better)."""
    c = Ctx.cur
    if c is not None and getattr(c, "div_as_inv", False) and not z3.is_rational_value(z3.simplify(b)):
        # a / b = a * inv_b with ONE fresh inv_b per distinct denominator (b != 0 -> b * inv_b == 1): sums of quotients
        # over a common denominator then factor, which nlsat cannot see through separate quotient variables
        cache = c.__dict__.setdefault("_inv_cache", {})
        k = b.get_id()
        if k not in cache:
            iv = c.new_real("inv")
            c.pc.append(z3.Implies(b != 0, iv * b == 1))
            c.defs[str(iv)] = ("expr", 1 / b)
            cache[k] = (iv, b)
        return a * cache[k][0]
    if c is not None and getattr(c, "div_as_mul", False) and not z3.is_rational_value(z3.simplify(b)):
        cache = c.__dict__.setdefault("_div_cache", {})
        k = (a.get_id(), b.get_id())
        if k not in cache:
            q = c.new_real("quot")
            c.pc.append(z3.Implies(b != 0, q * b == a))
            c.defs[str(q)] = ("expr", a / b)
            cache[k] = q
        return cache[k]
    return a / b


def _round_half_even(e):
    """Python's round() / numpy's rint: nearest integer, exact halves go to the even neighbour"""
    up = z3.ToInt(e + z3.RealVal("1/2"))
    tie = z3.ToReal(up) == e + z3.RealVal("1/2")
    return z3.If(z3.And(tie, up % 2 != 0), up - 1, up)


def _pyfloordiv(a, b):
    return z3.If(b > 0, a / b, (-a) / (-b))


def _pymod(a, b):
    if a.is_int() and b.is_int():
        return a - b * _pyfloordiv(a, b)
    a, b = _real(a), _real(b)
    return a - b * z3.ToReal(z3.ToInt(a / b))


class SBool:
    def __init__(self, e):
        self.e = e

    def __bool__(self):
        return Ctx.cur.branch(self.e)

    def _o(self, o):
        if isinstance(o, SBool):
            return o.e
        if isinstance(o, (bool, np.bool_)):
            return z3.BoolVal(bool(o))
        if isinstance(o, SNum):
            return o.e != 0
        if isinstance(o, (int, float)):
            return z3.BoolVal(bool(o))
        return None

    def __and__(self, o):
        oe = self._o(o)
        return NotImplemented if oe is None else SBool(z3.And(self.e, oe))

    __rand__ = __and__

    def __or__(self, o):
        oe = self._o(o)
        return NotImplemented if oe is None else SBool(z3.Or(self.e, oe))

    __ror__ = __or__

    def __xor__(self, o):
        oe = self._o(o)
        return NotImplemented if oe is None else SBool(z3.Xor(self.e, oe))

    __rxor__ = __xor__

    def __invert__(self):
        return SBool(z3.Not(self.e))

    def __eq__(self, o):
        oe = self._o(o)
        return NotImplemented if oe is None else SBool(self.e == oe)

    def __ne__(self, o):
        oe = self._o(o)
        return NotImplemented if oe is None else SBool(self.e != oe)

    __hash__ = None

    # arithmetic on booleans (mask * value, sum of masks)
    def _num(self):
        return SNum(z3.If(self.e, z3.IntVal(1), z3.IntVal(0)))

    def __mul__(self, o):
        if isinstance(o, SBool):
            return self & o
        return self._num() * o

    __rmul__ = __mul__

    def __add__(self, o):
        return self._num() + o

    __radd__ = __add__

    def __sub__(self, o):
        return self._num() - o

    def __rsub__(self, o):
        return o - self._num()

    def logical_not(self):
        return ~self

    def __repr__(self):
        return f"SB({self.e})"


class SNum:
    """z3 Int or Real term behaving like a Python int / float."""

    def __init__(self, e):
        self.e = e

    @property
    def is_int(self):
        return self.e.is_int()

    def _bin(self, o, f):
        if isinstance(o, (SComplex, Polar, PSum, Tok)):
            return NotImplemented
        try:
            oe = _z(o)
        except TypeError:
            return NotImplemented
        return SNum(f(self.e, oe))

    def __add__(self, o):
        return self._bin(o, lambda a, b: a + b)

    __radd__ = __add__

    def __sub__(self, o):
        return self._bin(o, lambda a, b: a - b)

    def __rsub__(self, o):
        return self._bin(o, lambda a, b: b - a)

    def __mul__(self, o):
        if isinstance(o, complex):
            return SComplex(self * o.real, self * o.imag)
        return self._bin(o, lambda a, b: a * b)

    __rmul__ = __mul__

    def __truediv__(self, o):
        return self._bin(o, lambda a, b: _div(_real(a), _real(b)))

    def __rtruediv__(self, o):
        return self._bin(o, lambda a, b: _div(_real(b), _real(a)))

    def __floordiv__(self, o):
        def f(a, b):
            if a.is_int() and b.is_int():
                return _pyfloordiv(a, b)
            return z3.ToReal(z3.ToInt(_real(a) / _real(b)))

        return self._bin(o, f)

    def __rfloordiv__(self, o):
        try:
            return SNum(_z(o)) // self
        except TypeError:
            return NotImplemented

    def __mod__(self, o):
        return self._bin(o, _pymod)

    def __rmod__(self, o):
        try:
            return SNum(_z(o)) % self
        except TypeError:
            return NotImplemented

    def __divmod__(self, o):
        return self // o, self % o

    def __neg__(self):
        return SNum(-self.e)

    def __pos__(self):
        return self

    def __abs__(self):
        return SNum(z3.If(self.e >= 0, self.e, -self.e))

    def __pow__(self, k):
        if isinstance(k, SNum):
            kk = z3.simplify(k.e)
            if z3.is_int_value(kk):
                k = kk.as_long()
            elif z3.is_rational_value(kk):
                k = float(kk.as_fraction())
            else:
                k = Ctx.cur.concretize(k.e)
        if isinstance(k, (int, float, np.integer, np.floating)):
            k = float(k)
            if k.is_integer():
                n = int(abs(k))
                if n == 0:
                    return SNum(z3.IntVal(1) if self.is_int else z3.RealVal(1))
                r = self
                for _ in range(n - 1):
                    r = r * self  # x**2 is literally (* x x): recognisable as a square
                return r if k >= 0 else 1 / r
            if k == 0.5:
                return self.sqrt()
            if k == -0.5:
                return 1 / self.sqrt()
            if k == 1.5:
                return self * self.sqrt()
        return NotImplemented

    def __rpow__(self, b):
        # b ** self, only for concrete-able exponents
        k = Ctx.cur.concretize(self.e)
        return b**k

    def _cmp(self, o, f):
        if isinstance(o, SBool):
            o = o._num()
        try:
            oe = _z(o)
        except TypeError:
            return NotImplemented
        return SBool(f(self.e, oe))

    def __lt__(self, o):
        return self._cmp(o, lambda a, b: a < b)

    def __le__(self, o):
        return self._cmp(o, lambda a, b: a <= b)

    def __gt__(self, o):
        return self._cmp(o, lambda a, b: a > b)

    def __ge__(self, o):
        return self._cmp(o, lambda a, b: a >= b)

    def __eq__(self, o):
        return self._cmp(o, lambda a, b: a == b)

    def __ne__(self, o):
        return self._cmp(o, lambda a, b: a != b)

    __hash__ = None

    def __index__(self):
        if not self.is_int:
            raise TypeError("SReal used as index")
        return Ctx.cur.concretize(self.e)

    def __bool__(self):
        return bool(self != 0)

    def __round__(self, n=None):
        if self.is_int:
            return self
        if n is None:
            return SNum(_round_half_even(self.e))
        raise TypeError("round with digits on symbolic")

    def __floor__(self):
        return self.floor_int()

    def __ceil__(self):
        return self.ceil_int()

    def __trunc__(self):
        return sint(self)

    def floor_int(self):
        return self if self.is_int else SNum(z3.ToInt(self.e))

    def ceil_int(self):
        return self if self.is_int else SNum(-z3.ToInt(-self.e))

    # numpy object-dtype ufunc hooks (np.floor on object arrays calls elem.floor())
    def floor(self):
        return self if self.is_int else SNum(z3.ToReal(z3.ToInt(self.e)))

    def ceil(self):
        return self if self.is_int else SNum(-z3.ToReal(z3.ToInt(-self.e)))

    def rint(self):
        return self if self.is_int else SNum(z3.ToReal(_round_half_even(self.e)))

    def conjugate(self):
        return self

    conj = conjugate

    def item(self):
        return self

    @property
    def real(self):
        return self

    @property
    def imag(self):
        return SNum(z3.IntVal(0))

    def sqrt(self):
        c = Ctx.cur
        x = z3.simplify(_real(self.e))
        key = ("sqrt", x.sexpr())
        cache = c.__dict__.setdefault("_sqrt_cache", {})
        if key in cache:
            return SNum(cache[key])
        r = c.new_real("sqrt")
        c.pc += [r >= 0, r * r == x]
        c.defs[str(r)] = ("sqrt", x)
        cache[key] = r
        return SNum(r)

    def cos(self):
        return SNum(_trig(self.e)[0])

    def sin(self):
        return SNum(_trig(self.e)[1])

    def tan(self):
        return SNum(TAN(_real(self.e)))

    def exp(self):
        """exp as a fresh positive real per distinct argument, with the instances of
        monotonicity / injectivity / exp(0)=1 that relate it to every earlier argument."""
        x = z3.simplify(_real(self.e))
        c = Ctx.cur
        seen = c.__dict__.setdefault("_exp_args", [])
        for xa, ya in seen:
            if xa.eq(x):
                seen.append((x, ya))
                return SNum(ya)
        y = c.new_real("exp")
        c.defs[str(y)] = ("exp", x)
        c.pc += [y > 0, (x <= 0) == (y <= 1), (x == 0) == (y == 1)]
        for xa, ya in seen:
            c.pc.append((x <= xa) == (y <= ya))
            c.pc.append((x == xa) == (y == ya))
        seen.append((x, y))
        return SNum(y)

    def __repr__(self):
        return f"S({self.e})"


numbers.Real.register(SNum)

COS = z3.Function("cos", z3.RealSort(), z3.RealSort())
SIN = z3.Function("sin", z3.RealSort(), z3.RealSort())
TAN = z3.Function("tan", z3.RealSort(), z3.RealSort())
EXP = z3.Function("exp", z3.RealSort(), z3.RealSort())
ATAN2 = z3.Function("arctan2", z3.RealSort(), z3.RealSort(), z3.RealSort())
PI = z3.Real("PI")
PI_LO = fractions.Fraction(3141592653589793, 10**15)
PI_HI = fractions.Fraction(3141592653589794, 10**15)


def pi_axioms():
    return [PI >= z3.RealVal(PI_LO), PI <= z3.RealVal(PI_HI)]


def _pi_coeff(m):
    """m == c*PI (c rational) -> Fraction c, else None"""
    if m.eq(PI):
        return fractions.Fraction(1)
    if z3.is_app(m) and m.decl().kind() == z3.Z3_OP_MUL and m.num_args() == 2:
        a, b = m.children()
        if b.eq(PI) and z3.is_rational_value(a):
            return a.as_fraction()
        if a.eq(PI) and z3.is_rational_value(b):
            return b.as_fraction()
    return None


def _lead_negative(y):
    m = y.children()[0] if z3.is_app(y) and y.decl().kind() == z3.Z3_OP_ADD else y
    if z3.is_rational_value(m):
        return m.as_fraction() < 0
    if z3.is_app(m) and m.decl().kind() == z3.Z3_OP_MUL and z3.is_rational_value(m.children()[0]):
        return m.children()[0].as_fraction() < 0
    if z3.is_app(m) and m.decl().kind() == z3.Z3_OP_UMINUS:
        return True
    return False


def _trig(e):
    """(cos e, sin e).  The angle is normalised first: whole multiples of PI/2 are split off and applied as a rotation,
    numeric constants within 1e-9 of a multiple of pi/2 likewise (with a bounded perturbation), and the remaining
    angle is made sign-canonical (cos even, sin odd); what is left is an atom with cos^2 + sin^2 = 1."""
    c = Ctx.cur
    x = z3.simplify(_real(e), som=True)
    mons = x.children() if z3.is_app(x) and x.decl().kind() == z3.Z3_OP_ADD else [x]
    q, rest, delta = 0, [], 0.0
    for m in mons:
        co = _pi_coeff(m)
        if co is not None and (co * 2).denominator == 1:
            q += int(co * 2)
        elif z3.is_rational_value(m) and m.as_fraction() != 0:
            r = float(m.as_fraction())
            k = round(r / (math.pi / 2))
            if k != 0 and abs(r - k * math.pi / 2) < 1e-9:
                q += k
                delta += r - k * math.pi / 2
            else:
                rest.append(m)
        else:
            rest.append(m)
    y = z3.RealVal(0)
    for m in rest:
        y = y + m
    y = z3.simplify(y, som=True)
    flip = _lead_negative(y)
    if flip:
        y = z3.simplify(-y, som=True)
    seen = c.__dict__.setdefault("_trig_args", set())
    k = y.sexpr()
    if z3.is_rational_value(y) and y.as_fraction() == 0:
        c0, s0 = z3.RealVal(1), z3.RealVal(0)
    else:
        c0, s0 = COS(y), SIN(y)
        if k not in seen:
            seen.add(k)
            c.pc += [c0 * c0 + s0 * s0 == 1]
    if flip:
        s0 = -s0
    if delta != 0.0:
        cd, sd = c.new_real("cosd"), c.new_real("sind")
        b = z3.RealVal(fractions.Fraction(abs(delta) + 1e-15))
        c.pc += [cd * cd + sd * sd == 1, sd <= b, sd >= -b, cd >= 1 - b * b, cd <= 1]
        c0, s0 = c0 * cd - s0 * sd, s0 * cd + c0 * sd
    return [(c0, s0), (-s0, c0), (-c0, -s0), (s0, -c0)][q % 4]


class _TypeLike(type):
    """lets the patched `int` / `float` names still be used in `float | None` annotations-as-values"""

    def __or__(cls, other):
        return (cls,) + (other if isinstance(other, tuple) else (other,))

    def __ror__(cls, other):
        return (other if isinstance(other, tuple) else (other,)) + (cls,)

    def __instancecheck__(cls, inst):
        return sisinstance(inst, cls)


class sint(metaclass=_TypeLike):
    """symbolic-aware int()"""

    def __new__(cls, x=0, *a):
        if isinstance(x, SNum):
            if x.is_int:
                return x
            return SNum(z3.If(x.e >= 0, z3.ToInt(x.e), -z3.ToInt(-x.e)))
        if isinstance(x, SBool):
            return x._num()
        if isinstance(x, np.ndarray) and x.dtype == object and x.shape == ():
            return sint(x[()])
        return int(x, *a)


class sfloat(metaclass=_TypeLike):
    def __new__(cls, x=0.0):
        if isinstance(x, SNum):
            return x if not x.is_int else SNum(z3.ToReal(x.e))
        if isinstance(x, np.ndarray) and x.dtype == object and x.shape == ():
            return sfloat(x[()])
        return float(x)


def sround(x, n=None):
    if isinstance(x, SNum):
        return x.__round__(n)
    return round(x, n) if n is not None else round(x)


def sabs(x):
    return abs(x)


_INT_T = (int, np.integer)
_FLOAT_T = (float, np.floating)


def sisinstance(x, t):
    import types
    if isinstance(t, types.UnionType):
        t = t.__args__
    ts = t if isinstance(t, tuple) else (t,)
    ts = tuple(int if tt is sint else float if tt is sfloat else tt for tt in ts)
    if isinstance(x, SNum):
        if SNum in ts or object in ts or numbers.Number in ts or numbers.Real in ts:
            return True
        if x.is_int:
            return any(tt in (int, np.integer, numbers.Integral) for tt in ts)
        return any(tt in (float, np.floating) for tt in ts)
    if isinstance(x, SBool):
        return any(tt in (bool, np.bool_, SBool, object) for tt in ts)
    return isinstance(x, ts)


def srange(*a):
    return range(*[Ctx.cur.concretize(x.e) if isinstance(x, SNum) else x for x in a])


def smin(*a, **k):
    if len(a) == 1 and isinstance(a[0], (list, tuple, np.ndarray)):
        a = tuple(a[0])
    if not any(isinstance(x, SNum) for x in a):
        return min(*a, **k) if len(a) > 1 else a[0]
    r = a[0]
    for x in a[1:]:
        r = SNum(z3.If(_z(x) < _z(r), _z(x), _z(r)))
    return r


def smax(*a, **k):
    if len(a) == 1 and isinstance(a[0], (list, tuple, np.ndarray)):
        a = tuple(a[0])
    if not any(isinstance(x, SNum) for x in a):
        return max(*a, **k) if len(a) > 1 else a[0]
    r = a[0]
    for x in a[1:]:
        r = SNum(z3.If(_z(x) > _z(r), _z(x), _z(r)))
    return r


# ---------------------------------------------------------------------------
# complex numbers


class SComplex:
    """Cartesian complex number with z3 real parts."""

    def __init__(self, re, im):
        self.re = re if isinstance(re, SNum) else SNum(_real(_z(re)))
        self.im = im if isinstance(im, SNum) else SNum(_real(_z(im)))

    @staticmethod
    def of(x):
        if isinstance(x, SComplex):
            return x
        if isinstance(x, (complex, np.complexfloating)):
            return SComplex(float(x.real), float(x.imag))
        if isinstance(x, Polar):
            return x.cartesian()
        return SComplex(x, 0)

    @property
    def real(self):
        return self.re

    @property
    def imag(self):
        return self.im

    def __add__(self, o):
        try:
            o = SComplex.of(o)
        except TypeError:
            return NotImplemented
        return SComplex(self.re + o.re, self.im + o.im)

    __radd__ = __add__

    def __sub__(self, o):
        try:
            o = SComplex.of(o)
        except TypeError:
            return NotImplemented
        return SComplex(self.re - o.re, self.im - o.im)

    def __rsub__(self, o):
        return SComplex.of(o) - self

    def __mul__(self, o):
        try:
            o = SComplex.of(o)
        except TypeError:
            return NotImplemented
        return SComplex(self.re * o.re - self.im * o.im, self.re * o.im + self.im * o.re)

    __rmul__ = __mul__

    def __truediv__(self, o):
        if isinstance(o, (SNum, int, float, np.integer, np.floating)):
            return SComplex(self.re / o, self.im / o)
        o = SComplex.of(o)
        d = o.re * o.re + o.im * o.im
        n = self * o.conjugate()
        return SComplex(n.re / d, n.im / d)

    def __rtruediv__(self, o):
        return SComplex.of(o) / self

    def __neg__(self):
        return SComplex(-self.re, -self.im)

    def conjugate(self):
        return SComplex(self.re, -self.im)

    conj = conjugate

    def abs2(self):
        return self.re * self.re + self.im * self.im

    def __abs__(self):
        return self.abs2().sqrt()

    def __pow__(self, k):
        if isinstance(k, (int, np.integer)) and k >= 0:
            r = SComplex(1, 0)
            for _ in range(int(k)):
                r = r * self
            return r
        return NotImplemented

    def __eq__(self, o):
        o = SComplex.of(o)
        return (self.re == o.re) & (self.im == o.im)

    def __ne__(self, o):
        return ~(self == o)

    __hash__ = None

    def __repr__(self):
        return f"SC({self.re.e}, {self.im.e})"


def ratform(t, _cache=None):
    """(numerator, denominator) of a real term as division-free z3 terms"""
    cache = {} if _cache is None else _cache
    k = t.get_id()
    if k in cache:
        return cache[k]
    one = z3.RealVal(1)
    if not z3.is_app(t) or t.num_args() == 0:
        r = (t, one)
    else:
        kind = t.decl().kind()
        ch = t.children()
        if kind == z3.Z3_OP_DIV:
            (n1, d1), (n2, d2) = ratform(ch[0], cache), ratform(ch[1], cache)
            r = (n1 * d2, d1 * n2)
        elif kind == z3.Z3_OP_MUL:
            n, d = one, one
            for c_ in ch:
                a, b = ratform(c_, cache)
                n, d = n * a, d * b
            r = (n, d)
        elif kind in (z3.Z3_OP_ADD, z3.Z3_OP_SUB):
            parts = [ratform(c_, cache) for c_ in ch]
            if all(z3.is_rational_value(z3.simplify(p[1])) and z3.simplify(p[1]).as_fraction() == 1 for p in parts):
                r = (t, one)
            else:
                den = one
                for _, b in parts:
                    den = den * b
                num = None
                for i, (a, b) in enumerate(parts):
                    term = a
                    for j, (_, b2) in enumerate(parts):
                        if j != i:
                            term = term * b2
                    if kind == z3.Z3_OP_SUB and i > 0:
                        term = -term
                    num = term if num is None else num + term
                r = (num, den)
        elif kind == z3.Z3_OP_UMINUS:
            a, b = ratform(ch[0], cache)
            r = (-a, b)
        else:
            r = (t, one)
    cache[k] = r
    return r


def turns_mod1_eq(t1, t2):
    n1, d1 = ratform(_real(_z(t1)))
    n2, d2 = ratform(_real(_z(t2)))
    cross = z3.simplify(n1 * d2 - n2 * d1, som=True)
    if z3.is_rational_value(cross) and cross.as_fraction() == 0:
        return z3.BoolVal(True)  # identical as rational functions (denominators are non-zero quantities: PI, wavelength, sampling)
    return _turns_mod1_eq_plain(t1, t2)


def _turns_mod1_eq_plain(t1, t2):
    """exp(2 pi i t1) == exp(2 pi i t2)"""
    d = z3.simplify(_real(_z(t1)) - _real(_z(t2)), som=True)
    if z3.is_rational_value(d):
        return z3.BoolVal(d.as_fraction().denominator == 1)
    # the polynomial normal form did not cancel: keep both routes (identically zero is the common case and
    # is much cheaper for the solver than integrality)
    return z3.Or(d == 0, z3.IsInt(d))


class Polar:
    """amp * exp(2 pi i tau), amp real (any sign), tau in turns."""

    def __init__(self, amp, tau):
        self.amp = _real(_z(amp))
        self.tau = _real(_z(tau))

    def __mul__(self, o):
        if isinstance(o, Polar):
            return Polar(self.amp * o.amp, self.tau + o.tau)
        if isinstance(o, PSum):
            return o * self
        if isinstance(o, SComplex):
            return self.cartesian() * o
        try:
            return Polar(self.amp * _real(_z(o)), self.tau)
        except TypeError:
            return NotImplemented

    __rmul__ = __mul__

    def __truediv__(self, o):
        if isinstance(o, Polar):
            return Polar(self.amp / o.amp, self.tau - o.tau)
        try:
            return Polar(self.amp / _real(_z(o)), self.tau)
        except TypeError:
            return NotImplemented

    def __neg__(self):
        return Polar(-self.amp, self.tau)

    def conjugate(self):
        return Polar(self.amp, -self.tau)

    conj = conjugate

    def __abs__(self):
        return abs(SNum(self.amp))

    def abs2(self):
        return SNum(self.amp * self.amp)

    def __add__(self, o):
        if isinstance(o, (int, float)) and o == 0:
            return self
        return PSum([self]) + o

    __radd__ = __add__

    def __sub__(self, o):
        return PSum([self]) + (-o)

    def __pow__(self, k):
        if isinstance(k, (int, np.integer)):
            a = SNum(self.amp) ** int(k)
            return Polar(a.e, self.tau * int(k))
        return NotImplemented

    @property
    def real(self):
        return self.cartesian().re

    @property
    def imag(self):
        return self.cartesian().im

    def cartesian(self):
        """Exact at multiples of a quarter turn when the solver can show it; else cos/sin model."""
        t = z3.simplify(self.tau * 4)
        if z3.is_rational_value(t) and t.as_fraction().denominator == 1:
            q = int(t.as_fraction()) % 4
            a = SNum(self.amp)
            return [SComplex(a, 0), SComplex(0, a), SComplex(-a, 0), SComplex(0, -a)][q]
        ang = self.tau * 2 * PI
        c, s = _trig(ang)
        return SComplex(SNum(self.amp * c), SNum(self.amp * s))

    def same_as(self, o):
        """z3 formula: equal as complex numbers (sufficient condition, exact when amp != 0)."""
        o = o if isinstance(o, Polar) else Polar(_z(o), 0)
        return z3.Or(
            z3.And(self.amp == 0, o.amp == 0),
            z3.And(self.amp == o.amp, turns_mod1_eq(self.tau, o.tau)),
            z3.And(self.amp == -o.amp, turns_mod1_eq(self.tau, o.tau + z3.RealVal("1/2"))),
        )

    def __repr__(self):
        return f"P({self.amp}, {self.tau})"


def CExp(tau):
    return Polar(z3.RealVal(1), tau)


class PSum:
    """Ordered sum of polar terms (kept unevaluated)."""

    def __init__(self, terms):
        self.terms = list(terms)

    def __add__(self, o):
        if isinstance(o, PSum):
            return PSum(self.terms + o.terms)
        if isinstance(o, Polar):
            return PSum(self.terms + [o])
        if isinstance(o, (int, float)) and o == 0:
            return self
        try:
            return PSum(self.terms + [Polar(_z(o), 0)])
        except TypeError:
            return NotImplemented

    __radd__ = __add__

    def __neg__(self):
        return PSum([-t for t in self.terms])

    def __sub__(self, o):
        return self + (-o)

    def __mul__(self, o):
        if isinstance(o, PSum):
            return PSum([a * b for a in self.terms for b in o.terms])
        return PSum([t * o for t in self.terms])

    __rmul__ = __mul__

    def __truediv__(self, o):
        return PSum([t / o for t in self.terms])

    def conjugate(self):
        return PSum([t.conjugate() for t in self.terms])

    conj = conjugate

    def cartesian(self):
        r = SComplex(0, 0)
        for t in self.terms:
            r = r + t.cartesian()
        return r


class Tok:
    """Opaque value of an uninterpreted sort."""

    def __init__(self, e):
        self.e = e

    def copy(self):
        return Tok(self.e)

    def __eq__(self, o):
        if isinstance(o, Tok):
            return SBool(self.e == o.e)
        return NotImplemented

    __hash__ = None

    def __repr__(self):
        return f"Tok({self.e})"


# ---------------------------------------------------------------------------
# helpers for harnesses


def obj(a):
    """numpy object array from nested lists / arrays"""
    if isinstance(a, np.ndarray) and a.dtype == object:
        return a
    a0 = np.asarray(a) if not isinstance(a, (list, tuple)) else None
    if a0 is not None and a0.dtype != object:
        out = np.empty(a0.shape, dtype=object)
        for i in np.ndindex(a0.shape):
            v = a0[i]
            out[i] = v.item() if hasattr(v, "item") else v
        return out
    from . import snp
    shape = _shape_of(a)
    out = np.empty(shape, dtype=object)
    for i in np.ndindex(shape):
        v = a
        for j in i:
            v = v[j]
        out[i] = v
    return out.view(snp.SymArr)


def _shape_of(a):
    if isinstance(a, (list, tuple)):
        if len(a) == 0:
            return (0,)
        return (len(a),) + _shape_of(a[0])
    if isinstance(a, np.ndarray):
        return a.shape
    return ()


def sym_array(c, name, shape, kind="real", lo=None, hi=None):
    from . import snp
    out = np.empty(shape, dtype=object).view(snp.SymArr)
    for i in np.ndindex(*shape) if shape else [()]:
        nm = name + "_" + "_".join(map(str, i))
        if kind == "real":
            out[i] = c.real(nm, lo, hi)
        elif kind == "int":
            out[i] = c.int(nm, lo, hi)
        elif kind == "complex":
            out[i] = SComplex(c.real(nm + "r", lo, hi), c.real(nm + "i", lo, hi))
    return out


def zand(*xs):
    xs = [_zb(x) for x in xs]
    return z3.And(*xs) if xs else z3.BoolVal(True)


def zor(*xs):
    xs = [_zb(x) for x in xs]
    return z3.Or(*xs) if xs else z3.BoolVal(False)


def zeq(a, b):
    """equality of numbers / SComplex as a z3 formula"""
    if isinstance(a, (SComplex, complex)) or isinstance(b, (SComplex, complex)):
        a, b = SComplex.of(a), SComplex.of(b)
        return z3.And(_z(a.re) == _z(b.re), _z(a.im) == _z(b.im))
    if isinstance(a, Tok) or isinstance(b, Tok):
        return a.e == b.e
    if isinstance(a, SBool) or isinstance(b, SBool):
        return _zb(a) == _zb(b)
    return _z(a) == _z(b)


def zclose(a, b, rtol=0, atol=0):
    d = _real(_z(a)) - _real(_z(b))
    bb = _real(_z(b))
    tol = _z(float(atol)) + _z(float(rtol)) * z3.If(bb >= 0, bb, -bb)
    return z3.And(d <= tol, -d <= tol)


def arrays_equal(A, B):
    A, B = np.asarray(A, dtype=object), np.asarray(B, dtype=object)
    if A.shape != B.shape:
        return z3.BoolVal(False)
    return zand(*[zeq(A[i], B[i]) for i in np.ndindex(A.shape)])


def cabs2(e):
    """|e|^2 as a z3 real for Polar / PSum / SComplex / SNum / python numbers"""
    if isinstance(e, Polar):
        return e.amp * e.amp
    if isinstance(e, PSum):
        e = e.cartesian()
    if isinstance(e, SComplex):
        return _real(e.re.e) * _real(e.re.e) + _real(e.im.e) * _real(e.im.e)
    if isinstance(e, complex):
        return z3.RealVal(fractions.Fraction(e.real)) ** 2 + z3.RealVal(fractions.Fraction(e.imag)) ** 2
    x = _real(_z(e))
    return x * x


def phasor_turns_eq(e, want):
    """e is a unit phasor exp(2 pi i want); a value that is not in polar form cannot be compared and fails (the replay decides)"""
    if isinstance(e, Polar):
        return z3.And(e.amp == 1, turns_mod1_eq(e.tau, want))
    return z3.BoolVal(False)


def tau_of(e):
    return e.tau if isinstance(e, Polar) else None
