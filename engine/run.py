"""Driver: ./check <id> [--tier quick|thorough] [--replay path]

Runs every case of harness/<id>.py in its own forked worker (namespace patches are
process-local), replays solver models against the unpatched code, applies
known_findings.json, writes evidence/<id>.json.  Exit 0 / 1 (VIOLATION) / 2 (harness error).
"""
import argparse
import fnmatch
import fractions
import hashlib
import importlib
import inspect
import json
import multiprocessing as mp
import os
import subprocess
import sys
import time
import traceback

ROOT = os.path.dirname(os.path.dirname(os.path.abspath(__file__)))
# The registered commands always analyse /repo.  VERIF_REPO exists only so that the seeded-change matrix (tools/seed_matrix.py)
# can point a check at a scratch worktree without touching /repo while other checks are running.
REPO = os.environ.get("VERIF_REPO", "/repo")
OUT = ROOT
if REPO != "/repo":
    sys.path.insert(0, REPO)
    OUT = os.environ.get("VERIF_OUT", os.path.join("/tmp", "verif_out_" + str(os.getuid())))  # never overwrite /verif's evidence or replays
REPLAY_PY = "/venv/bin/python"


class Case:
    def __init__(self, name, fn, setup=None, concrete=None, vectors=(), max_paths=3000, timeout_ms=None,
                 budget_s=None, tol=1e-9, engine="sx", info=None):
        self.name = name
        self.fn = fn
        self.setup = setup
        self.concrete = concrete
        self.vectors = list(vectors)
        self.max_paths = max_paths
        self.timeout_ms = timeout_ms
        self.budget_s = budget_s
        self.tol = tol
        self.engine = engine
        self.info = info


def _jsonable(v):
    if isinstance(v, fractions.Fraction):
        return float(v) if v.denominator != 1 else int(v)
    if isinstance(v, dict):
        return {str(k): _jsonable(x) for k, x in v.items()}
    if isinstance(v, (list, tuple)):
        return [_jsonable(x) for x in v]
    if isinstance(v, (int, float, str, bool)) or v is None:
        return v
    return str(v)


def fmt_values(model):
    """Python source literal for a model dict (Fractions kept exact)."""
    items = []
    for k, v in model.items():
        if isinstance(v, fractions.Fraction):
            if v.denominator == 1:
                items.append(f"{k!r}: {int(v)}.0")
            else:
                items.append(f"{k!r}: {v.numerator}/{v.denominator}")
        else:
            items.append(f"{k!r}: {v!r}")
    return "{" + ", ".join(items) + "}"


def run_replay(pid, case, obl, script):
    d = os.path.join(OUT, "replays", pid)
    os.makedirs(d, exist_ok=True)
    h = hashlib.sha256(script.encode()).hexdigest()[:10]
    safe = "".join(ch if ch.isalnum() or ch in "-_" else "_" for ch in f"{case}-{obl}")[:80]
    path = os.path.join(d, f"{safe}-{h}.py")
    with open(path, "w") as f:
        f.write(script)
    env = dict(os.environ)
    env.pop("ABTEM_VERIF", None)
    env["PYTHONPATH"] = REPO
    env["PYTHONDONTWRITEBYTECODE"] = "1"
    try:
        p = subprocess.run([REPLAY_PY, path], capture_output=True, text=True, timeout=300, env=env)
    except subprocess.TimeoutExpired:
        return path, "error", "replay timeout"
    out = (p.stdout or "") + (p.stderr or "")
    if p.returncode == 1 and "REPRODUCED" in p.stdout and "NOT-REPRODUCED" not in p.stdout:
        return path, "reproduced", out[-600:]
    if p.returncode == 0:
        os.remove(path)
        return path, "not_reproduced", out[-300:]
    return path, "error", out[-1500:]


def load_known(pid):
    p = os.path.join(ROOT, "known_findings.json")
    if not os.path.exists(p):
        return []
    with open(p) as f:
        data = json.load(f)
    return [e for e in data.get("findings", []) if e.get("property") == pid and e.get("status") == "known"]


def _class_env_concrete(model):
    env = {k: v for k, v in model.items()}
    env.update(And=lambda *a: all(a), Or=lambda *a: any(a), Not=lambda a: not a, Fraction=fractions.Fraction)
    return env


def _class_z3(expr, ctx):
    import z3
    from engine.sx import SNum, SBool, _zb

    env = {}
    for k, v in ctx.inputs.items():
        env[k] = SBool(v) if z3.is_bool(v) else SNum(v)
    env.update(And=lambda *a: SBool(z3.And(*[_zb(x) for x in a])), Or=lambda *a: SBool(z3.Or(*[_zb(x) for x in a])),
               Not=lambda a: SBool(z3.Not(_zb(a))), Fraction=fractions.Fraction)
    return _zb(eval(expr, {"__builtins__": {}}, env))


def _orphan_guard():
    """a worker whose parent has gone (killed check, hard timeout of the whole run) must not keep a core busy for hours"""
    import threading

    parent = os.getppid()

    def watch():
        while True:
            time.sleep(5)
            if os.getppid() != parent:
                os._exit(3)
    threading.Thread(target=watch, daemon=True).start()


def _worker(args):
    modname, idx, tier, seed, pid = args
    t0 = time.time()
    _orphan_guard()
    import resource
    ru0 = resource.getrusage(resource.RUSAGE_SELF)
    res = {"case": None, "error": None, "paths": 0, "queries": 0, "solver_s": 0.0, "obligations": {},
           "violations": [], "known": [], "unconfirmed": [], "validated": 0, "functions": [], "samples": [],
           "canaries": {}, "complete": True, "aborted": 0, "branch_unknown": 0, "inconclusive": []}
    try:
        import z3  # noqa
        from engine import sx, feval

        mod = importlib.import_module(modname)
        case = mod.cases(tier)[idx]
        res["case"] = case.name
        if case.engine == "custom":
            # custom engines (CrossHair, FP tier) return a result dict in the same format
            out = case.fn(tier, seed)
            res.update(out)
            res["wall_s"] = time.time() - t0
            return res
        # 1. concrete reference outputs, unpatched
        conc = []
        if case.concrete and case.vectors:
            for v in case.vectors:
                conc.append(case.concrete(dict(v)))
        # 2. profile + setup
        seen = set()

        def prof(frame, event, arg):
            if event == "call":
                co = frame.f_code
                if co.co_filename.startswith(REPO + "/abtem"):
                    seen.add(co)

        if case.setup:
            case.setup()
        tmo = case.timeout_ms or (20000 if tier == "quick" else 60000)
        budget = case.budget_s or (90 if tier == "quick" else 900)
        # 3. encoding validation
        for v, ref in zip(case.vectors, conc):
            sys.setprofile(prof)
            try:
                paths, st = sx.explore(case.fn, max_paths=50, timeout_ms=tmo, pin=dict(v))
            finally:
                sys.setprofile(None)
            if not paths:
                raise RuntimeError(f"validation vector {v} reaches no path")
            for c in paths:
                env = {k: (float(x) if not isinstance(x, (bool, int)) else x) for k, x in v.items()}
                for name, want in ref.items():
                    if name not in c.outputs:
                        continue
                    got = feval.feval(sx._z(c.outputs[name]) if not z3.is_expr(c.outputs[name]) else c.outputs[name],
                                      env, c.defs)
                    if isinstance(want, bool) or isinstance(got, bool):
                        ok = bool(got) == bool(want)
                    else:
                        ok = abs(float(got) - float(want)) <= case.tol * max(1.0, abs(float(want)))
                    if not ok:
                        raise RuntimeError(f"encoding validation mismatch: case {case.name} vector {v} "
                                           f"output {name}: symbolic {got} vs real {want}")
            res["validated"] += 1
        # 4. full exploration
        sys.setprofile(prof)
        first = {"n": 0}
        sx.SECOND.update(budget=int(os.environ.get("VERIF_SECOND", "3")), seen=set())
        try:
            paths, st = sx.explore(case.fn, max_paths=case.max_paths, timeout_ms=tmo, deadline=t0 + budget)
        finally:
            sys.setprofile(None)
        res.update(paths=st["paths"], queries=st["queries"], solver_s=st["solver_s"], complete=st["complete"],
                   aborted=st["aborted"], branch_unknown=st["branch_unknown"])
        known = load_known(pid)
        confirmed = set()
        printed_known = set()
        for c in paths:
            for rec in c.results:
                name = rec["name"]
                if rec.get("canary"):
                    cur = res["canaries"].get(name, "unsat")
                    if rec["result"] == "sat" or cur == "sat":
                        res["canaries"][name] = "sat"
                    elif rec["result"] != "unsat":
                        res["canaries"][name] = rec["result"]
                    else:
                        res["canaries"].setdefault(name, rec["result"])
                    continue
                o = res["obligations"].setdefault(name, {"instances": 0, "unsat": 0, "sat": 0, "unknown": 0,
                                                         "reached": 0})
                o["instances"] += 1
                o["max_s"] = max(o.get("max_s", 0), rec.get("secs", 0))
                o[rec["result"] if rec["result"] in ("sat", "unsat") else "unknown"] += 1
                if rec["reach"] == "sat":
                    o["reached"] += 1
                elif rec["reach"] != "unsat":
                    o["reach_unknown"] = o.get("reach_unknown", 0) + 1
                if rec.get("second"):
                    so = res.setdefault("second", {"checked": 0, "unsat": 0, "unknown": 0, "sat": 0})
                    so["checked"] += 1
                    so[rec["second"] if rec["second"] in ("unsat", "sat") else "unknown"] += 1
                    if rec["second"] == "sat":
                        # the two solvers disagree: the obligation is not counted as discharged
                        o["unsat"] -= 1
                        o["unknown"] += 1
                        o["second_opinion_disagrees"] = o.get("second_opinion_disagrees", 0) + 1
                        res["inconclusive"].append(name + " (second solver: sat)")
                if rec["result"] == "unknown":
                    res["inconclusive"].append(name)
                if len(res["samples"]) < 3 and rec["result"] == "unsat":
                    res["samples"].append({"case": case.name, "obligation": name, "result": "unsat",
                                           "path_condition": [str(x)[:160] for x in c.pc[:6]],
                                           "info": _jsonable(rec.get("info"))})
                if rec["result"] != "sat":
                    continue
                # ---- candidate counterexample: replay ----
                key = name
                if key in confirmed:
                    continue
                models = [rec["model"]]
                status = None
                tried = 0
                neg = rec["_neg"]
                kn = [e for e in known if fnmatch.fnmatch(case.name, e.get("case", "*"))
                      and fnmatch.fnmatch(name, e.get("obligation", "*"))]
                while models and tried < 5:
                    m = models.pop(0)
                    tried += 1
                    if rec["replay"] is None:
                        status = ("noreplay", None, m, "")
                        break
                    script = rec["replay"](m)
                    path, st_, out = run_replay(pid, case.name, name, script)
                    if st_ == "reproduced":
                        status = ("reproduced", path, m, out)
                        break
                    if st_ == "error":
                        status = ("error", path, m, out)
                        break
                    status = ("not_reproduced", None, m, out)
                    if not models:
                        c.check(neg)
                        models = _more(c, neg, m, tried)
                if status[0] == "error":
                    raise RuntimeError(f"replay script error for {case.name}/{name}: {status[3]} ({status[1]})")
                if status[0] in ("not_reproduced", "noreplay"):
                    res["unconfirmed"].append({"obligation": name, "model": _jsonable(status[2]),
                                               "why": status[0]})
                    continue
                confirmed.add(key)
                m = status[2]
                matched = None
                for e in kn:
                    cl = e.get("class")
                    if not cl or eval(cl, {"__builtins__": {}}, _class_env_concrete(m)):
                        matched = e
                        break
                if matched is None:
                    res["violations"].append({"obligation": name, "model": _jsonable(m), "replay": status[1],
                                              "output": status[3]})
                    continue
                if matched["id"] not in printed_known:
                    printed_known.add(matched["id"])
                    res["known"].append({"id": matched["id"], "description": matched["description"],
                                         "obligation": name, "model": _jsonable(m)})
                # any violation outside the listed class?
                cls = [e["class"] for e in kn if e.get("class")]
                if len(cls) == len(kn) and cls:
                    outside = z3.And(*[z3.Not(_class_z3(x, c)) for x in cls])
                    if c.check(neg, outside) == z3.sat:
                        m2 = c.model_values()
                        script = rec["replay"](m2)
                        path, st_, out = run_replay(pid, case.name, name + "-outside", script)
                        if st_ == "reproduced":
                            res["violations"].append({"obligation": name, "model": _jsonable(m2), "replay": path,
                                                      "output": out, "outside_known_class": True})
                        elif st_ == "error":
                            raise RuntimeError(f"replay script error: {out}")
                        else:
                            res["unconfirmed"].append({"obligation": name, "model": _jsonable(m2),
                                                       "why": "outside-class model not reproduced"})
        # vacuity: every obligation must have been reachable at least once
        for name, o in res["obligations"].items():
            if o["reached"] == 0 and not o.get("reach_unknown"):
                raise RuntimeError(f"vacuous obligation {name} in case {case.name}: never reached with sat pc")
        for name, r in res["canaries"].items():
            if r == "unsat":
                raise RuntimeError(f"canary {name} in case {case.name} was not refuted ({r}): harness insensitive")
        if not res["obligations"] and not res["canaries"]:
            raise RuntimeError(f"case {case.name}: no obligation reached")
        fns = []
        for co in seen:
            try:
                import linecache
                lines = linecache.getlines(co.co_filename)
                src = "".join(inspect.getblock(lines[co.co_firstlineno - 1:]))
            except Exception:
                src = repr(co.co_code)
            fns.append({"function": f"{co.co_filename[len(REPO) + 1:]}:{co.co_qualname}",
                        "sha256": hashlib.sha256(src.encode()).hexdigest()[:16]})
        res["functions"] = sorted(fns, key=lambda x: x["function"])
    except BaseException:
        res["error"] = traceback.format_exc()[-3000:]
    finally:
        try:
            from engine import patch as _p
            _p.undo_all()
        except Exception:
            pass
    res["wall_s"] = time.time() - t0
    ru1 = resource.getrusage(resource.RUSAGE_SELF)
    res["ru"] = (round(ru1.ru_utime - ru0.ru_utime, 2), round(ru1.ru_stime - ru0.ru_stime, 2), ru1.ru_minflt - ru0.ru_minflt)
    return res


def _init(modname):
    sys.path.insert(0, ROOT)
    importlib.import_module(modname)


def _proc_main(modname, tasks, results):
    _init(modname)
    while True:
        job = tasks.get()
        if job is None:
            return
        results.put(("start", job[1], os.getpid(), time.time()))
        results.put(("done", job[1], os.getpid(), _worker(job)))


def _blank(name, **kw):
    d = {"case": name, "error": None, "paths": 0, "queries": 0, "solver_s": 0.0, "obligations": {}, "violations": [], "known": [],
         "unconfirmed": [], "validated": 0, "functions": [], "samples": [], "canaries": {}, "complete": False, "aborted": 0,
         "branch_unknown": 0, "inconclusive": []}
    d.update(kw)
    return d


def _run_pool(modname, jobs, cases, tier, nproc):
    """Own process pool with a hard wall-clock limit per case: z3's nlsat occasionally ignores both its timeout and
    interrupts, and a stuck case must not hang the check.  A killed case is reported as inconclusive."""
    ctx = mp.get_context("spawn")
    tasks, results = ctx.Queue(), ctx.Queue()
    for j in jobs:
        tasks.put(j)
    procs = {}

    def spawn():
        p = ctx.Process(target=_proc_main, args=(modname, tasks, results), daemon=True)
        p.start()
        procs[p.pid] = p

    for _ in range(nproc):
        spawn()
    out, running = {}, {}
    default = 90 if tier == "quick" else 900
    while len(out) < len(jobs):
        try:
            msg = results.get(timeout=1.0)
        except Exception:
            msg = None
        if msg is not None:
            if msg[0] == "start":
                running[msg[2]] = (msg[1], msg[3])
            else:
                out[msg[1]] = msg[3]
                running.pop(msg[2], None)
        now = time.time()
        for pid, (idx, st) in list(running.items()):
            limit = (cases[idx].budget_s or default) * 1.5 + 120
            if now - st > limit:
                procs[pid].terminate()
                procs.pop(pid, None)
                running.pop(pid, None)
                out[idx] = _blank(cases[idx].name, inconclusive=["hard wall-clock limit"], wall_s=now - st, hard_timeout=True)
                spawn()
        for pid, p in list(procs.items()):
            if not p.is_alive() and pid in running:
                idx, st = running.pop(pid)
                out[idx] = _blank(cases[idx].name, error=f"worker died (exit {p.exitcode})", wall_s=now - st)
                procs.pop(pid, None)
                spawn()
    for _ in procs:
        tasks.put(None)
    for p in procs.values():
        p.join(timeout=2)
        if p.is_alive():
            p.terminate()
    return [out[j[1]] for j in jobs]


def _more(c, neg, last, tried):
    import z3
    from engine.sx import _z

    block = c.__dict__.setdefault("_blocks", [])
    cl = []
    for k, v in c.inputs.items():
        val = last.get(k)
        if isinstance(val, bool):
            cl.append(v != z3.BoolVal(val))
        elif isinstance(val, (int, fractions.Fraction)):
            cl.append(v != _z(val))
    if not cl:
        return []
    block.append(z3.Or(*cl))
    if c.check(neg, *block) == z3.sat:
        return [c.model_values()]
    return []


def main(argv=None):
    ap = argparse.ArgumentParser()
    ap.add_argument("pid")
    ap.add_argument("--tier", default=os.environ.get("VERIF_TIER", "quick"), choices=["quick", "thorough"])
    ap.add_argument("--replay", default=None)
    ap.add_argument("--case", default=None, help="only cases matching this glob (debug; evidence not written)")
    ap.add_argument("--jobs", type=int, default=int(os.environ.get("VERIF_JOBS", "16")))
    a = ap.parse_args(argv)
    pid = a.pid.upper()
    seed = int(os.environ.get("VERIF_SEED", "0"))
    if a.replay:
        env = dict(os.environ, PYTHONPATH=REPO)
        p = subprocess.run([REPLAY_PY, a.replay], env=env)
        if p.returncode == 1:
            print(f"VIOLATION property={pid} replay={a.replay}")
        return p.returncode
    t0 = time.time()
    sys.path.insert(0, ROOT)
    modname = f"harness.{pid.lower()}"
    try:
        mod = importlib.import_module(modname)
        cases = mod.cases(a.tier)
    except Exception:
        traceback.print_exc()
        print(f"HARNESS-ERROR property={pid} cannot load harness")
        return 2
    idxs = [i for i, c in enumerate(cases) if a.case is None or fnmatch.fnmatch(c.name, a.case)]
    jobs = [(modname, i, a.tier, seed, pid) for i in idxs]
    # fresh (spawned) persistent workers: forking a parent that has abTEM loaded makes all children
    # contend on the parent's anon_vma lock (measured 8x slowdown at 16 jobs); patches are undone per case
    nproc = max(1, min(a.jobs, len(jobs)))
    if nproc == 1 and a.case is not None and os.environ.get("VERIF_INPROC"):
        results = [_worker(j) for j in jobs]
    else:
        results = _run_pool(modname, jobs, cases, a.tier, nproc)
    wall = time.time() - t0
    errors = [r for r in results if r["error"]]
    viol = [(r["case"], v) for r in results for v in r["violations"]]
    known = {}
    for r in results:
        for k in r["known"]:
            known.setdefault(k["id"], k)
    n_obl = sum(o["instances"] for r in results for o in r["obligations"].values())
    n_dis = sum(o["unsat"] for r in results for o in r["obligations"].values())
    n_unk = sum(o["unknown"] for r in results for o in r["obligations"].values())
    fns = {}
    for r in results:
        for f in r["functions"]:
            fns[f["function"]] = f["sha256"]
    samples = [s for r in results for s in r["samples"]][:8]
    if not samples:
        samples = [{"case": r["case"], "obligations": r["obligations"]} for r in results[:3]]
    ev = {
        "property_id": pid,
        "tier": a.tier,
        "seed": seed,
        "level": getattr(mod, "LEVEL", "model_checking"),
        "coverage": {
            "states": max(1, sum(r["paths"] for r in results)),
            "transitions": max(1, sum(r["queries"] for r in results)),
            "traces_validated_against_impl": sum(r["validated"] for r in results),
            "samples": samples,
            "obligations": n_obl,
            "discharged": n_dis,
            "inconclusive": n_unk,
            "explanation": getattr(mod, "EXPLANATION", "bounded symbolic execution of the real functions; "
                                   "states = symbolic paths, transitions = solver queries"),
            "exhaustive": all(r["complete"] for r in results) and not errors,
            "cases": [{"case": r["case"], "paths": r["paths"], "aborted_infeasible": r["aborted"],
                       "queries": r["queries"], "solver_s": round(r["solver_s"], 3), "wall_s": round(r["wall_s"], 2),
                       "complete": r["complete"], "branch_unknown": r["branch_unknown"],
                       "obligations": r["obligations"], "canaries": r["canaries"],
                       "unconfirmed": r["unconfirmed"], **({"extra": r["extra"]} if "extra" in r else {})}
                      for r in results],
            "functions_encoded": [{"function": k, "sha256": v} for k, v in sorted(fns.items())],
            "bounds": getattr(mod, "BOUNDS", {}).get(a.tier, ""),
            "outside_bounds": getattr(mod, "OUTSIDE", []),
            "stubs": getattr(mod, "STUBS", []),
            "solver_time_s": round(sum(r["solver_s"] for r in results), 3),
            "solvers": ["z3 " + _z3v(), "second opinion: /usr/bin/z3 4.8.12 on a sample of discharged obligations"],
            "second_opinion": {k: sum(r.get("second", {}).get(k, 0) for r in results) for k in ("checked", "unsat", "unknown", "sat")},
            "known_findings": list(known.values()),
            "violations": [{"case": c, **v} for c, v in viol],
            "harness_errors": [{"case": r["case"], "error": r["error"]} for r in errors],
        },
        "assumptions": getattr(mod, "ASSUMPTIONS", []),
        "wall_s": round(wall, 2),
        "violations": len(viol),
    }
    if a.case is None:
        os.makedirs(os.path.join(OUT, "evidence"), exist_ok=True)
        with open(os.path.join(OUT, "evidence", f"{pid}.json"), "w") as f:
            json.dump(ev, f, indent=1, default=str)
    for r in results:
        tag = "ERROR" if r["error"] else ("HARD-TIMEOUT(inconclusive)" if r.get("hard_timeout") else "INCOMPLETE" if not r["complete"] else "ok")
        print(f"  case {r['case']}: paths={r['paths']} queries={r['queries']} "
              f"obl={sum(o['instances'] for o in r['obligations'].values())} "
              f"unsat={sum(o['unsat'] for o in r['obligations'].values())} "
              f"sat={sum(o['sat'] for o in r['obligations'].values())} "
              f"unk={sum(o['unknown'] for o in r['obligations'].values())} "
              f"validated={r['validated']} wall={r['wall_s']:.1f}s ru={r.get('ru')} {tag}")
        for nm, o in r["obligations"].items():
            if o.get("max_s", 0) > 10 or o["unknown"]:
                print(f"    slow/unknown obligation {nm}: max {o.get('max_s')}s unknown={o['unknown']}")
        for u in r["unconfirmed"]:
            print(f"    unconfirmed (model did not reproduce / no replay): {u['obligation']} {u['why']} {u['model']}")
    for k in known.values():
        print(f"KNOWN-FINDING: property={pid} {k['id']}: {k['description']}")
    for c, v in viol:
        print(f"VIOLATION property={pid} replay={v['replay']}")
        print(f"  case={c} obligation={v['obligation']} model={v['model']}")
    if errors:
        for r in errors:
            print(f"HARNESS-ERROR property={pid} case={r['case']}\n{r['error']}")
    print(f"{pid} {a.tier}: obligations={n_obl} discharged={n_dis} inconclusive={n_unk} "
          f"violations={len(viol)} known={len(known)} wall={wall:.1f}s")
    if viol:
        return 1
    if errors:
        return 2
    return 0


def _z3v():
    try:
        import z3
        return z3.get_version_string()
    except Exception:
        return "?"


if __name__ == "__main__":
    sys.exit(main())
