"""Stand-alone replay scripts: the solver's model is run through the unpatched abTEM."""
import textwrap

from .run import fmt_values

HEADER = '''\
# Stand-alone replay of a solver counterexample against the unpatched abTEM in /repo.
# exit 1 + "REPRODUCED" = the property violation reproduces; exit 0 = it does not.
import sys, warnings
warnings.filterwarnings("ignore")
sys.path.insert(0, __import__("os").environ.get("VERIF_REPO", "/repo"))
import numpy as np
'''

FOOTER = '''
if bad:
    print("REPRODUCED:", why)
    sys.exit(1)
print("NOT-REPRODUCED")
sys.exit(0)
'''


def make(body, **consts):
    """body: python source using V (dict of model values) and setting `bad` (bool) and `why` (str)."""
    body = textwrap.dedent(body)

    def f(model):
        pre = "".join(f"{k} = {v!r}\n" for k, v in consts.items())
        return HEADER + pre + f"V = {fmt_values(model)}\n" + "bad = False; why = ''\n" + body + FOOTER

    return f
