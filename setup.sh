#!/bin/sh
# Builds the overlay venv the checks run in (offline; files on disk only).
set -e
cd "$(dirname "$0")"
V=/verif/.venv
if [ ! -x "$V/bin/python" ] || ! "$V/bin/python" -c "import z3, crosshair" 2>/dev/null; then
  rm -rf "$V"
  /venv/bin/python -m venv "$V"
  SP=$("$V/bin/python" -c "import sysconfig; print(sysconfig.get_paths()['purelib'])")
  printf "import site; site.addsitedir('/venv/lib/python3.12/site-packages')\n/repo\n" > "$SP/_overlay.pth"
  PIP_NO_INDEX=1 "$V/bin/pip" install -q --no-index --find-links /opt/veriftools/wheels crosshair-tool z3-solver cvc5
fi
"$V/bin/python" -c "import z3, crosshair, abtem; print('setup ok', z3.get_version_string())"
