"""C37 Real-space multislice is a faithful discretization (finite-difference Laplacian stencil)."""
import fractions

import numpy as np
import z3

from engine import sx, patch, snp
from engine.run import Case
from engine.replay import make
from engine.sx import SNum, SComplex, Polar, PSum, Tok, zand, _z, _real

PROPERTY = "C37"
BOUNDS = {
    "quick": "accuracies 2, 4, 6: stencil applied (Python body of the jitted kernel, wrap mode) to symbolic complex arrays of shape (2n+2)x(2n+3) and batches; plane waves exp(2 pi i (m i + l j)/N) "
             "with symbolic integer frequencies on an NxN grid (N = 2n+3); coefficient order conditions for accuracies 2..8; stencil cache over histories of 3 requests and 2 operator instances",
    "thorough": "accuracies 2..8 for the stencil, histories of 4 requests",
}
OUTSIDE = ["the numba-compiled kernel vs its Python body (trusted; the replay runs the compiled kernel)", "convergence of the exponential series", "lazy = eager of the real-space run",
           "physical accuracy for anisotropic sampling (the stencil uses one prefactor 1/(dx dy) for both directions; the property is stated for the stencil's own eigenvalue)"]
STUBS = ["numba.njit -> identity (Python semantics of the kernel body)", "complex exponentials -> unit phasors", "_laplace_operator_stencil -> uninterpreted stencil(accuracy, prefactor) in the cache cases"]
ASSUMPTIONS = ["sampling > 0"]

import abtem.finite_difference as FD


def _setup():
    patch.patch(FD)
    patch.set(FD, "njit", lambda *a, **k: (a[0] if a and callable(a[0]) else (lambda f: f)))


def _coeffs(c):
    ok_all = []
    for acc in (2, 4, 6, 8):
        co = FD.finite_difference_coefficients(2, acc)
        n = len(co) // 2
        cf = [fractions.Fraction(float(x)) for x in co]
        ks = list(range(-n, n + 1))
        sym = all(abs(float(cf[i] - cf[-1 - i])) < 1e-12 for i in range(len(cf)))
        s0 = abs(float(sum(cf))) < 1e-12
        s2 = abs(float(sum(c_ * k * k for c_, k in zip(cf, ks))) - 2.0) < 1e-10
        hi = all(abs(float(sum(c_ * fractions.Fraction(k) ** m for c_, k in zip(cf, ks)))) < 1e-8 for m in range(3, acc + 2))
        ok_all.append(len(co) == acc + 1 and sym and s0 and s2 and hi)
    x = c.real("dummy")
    c.prove("coefficients.symmetric_sum_zero_and_order_conditions", all(ok_all), replay=None, info=str(ok_all))


def _stencil(acc, shape):
    rp = R_S(acc)

    def fn(c):
        pref = c.real("prefactor")
        A = sx.sym_array(c, "a", shape, kind="complex")
        f = FD._laplace_operator_stencil(acc, pref, mode="wrap", dtype=sx.sfloat, device="cpu")
        out = f(A)
        co = FD.finite_difference_coefficients(2, acc)
        n = len(co) // 2
        H, W = shape[-2:]
        ok = [out.shape == tuple(shape)]
        for idx in np.ndindex(tuple(shape)):
            b, (i, j) = idx[:-2], idx[-2:]
            acc_ = SComplex(0, 0)
            for k in range(-n, n + 1):
                ck = SNum(_z(float(co[k + n])) * _z(pref))
                acc_ = acc_ + ck * SComplex.of(A[b + ((i + k) % H, j)]) + ck * SComplex.of(A[b + (i, (j + k) % W)])
            ok.append(sx.zeq(SComplex.of(out[idx]), acc_))
        c.prove("stencil.is_periodic_convolution_with_the_coefficients_times_prefactor", zand(*ok), replay=rp)
        c.canary("stencil.canary_identity", sx.zeq(SComplex.of(out[tuple(0 for _ in shape)]), SComplex.of(A[tuple(0 for _ in shape)])))
    return fn


def R_S(acc):
    return make("""
    from abtem.finite_difference import _laplace_operator_stencil, finite_difference_coefficients
    pref = float(V.get('prefactor', 2.5)); pref = float(np.clip(pref, -1e3, 1e3)) or 1.0
    n = ACC // 2; N = 2 * n + 3
    rng = np.random.default_rng(0); A = (rng.random((2, N, N + 1)) + 1j * rng.random((2, N, N + 1))).astype(np.complex64)
    out = _laplace_operator_stencil(ACC, pref, mode='wrap')(A.copy())
    co = finite_difference_coefficients(2, ACC)
    ref = np.zeros_like(A)
    for k in range(-n, n + 1):
        ref += co[k + n] * pref * (np.roll(A, -k, axis=-2) + np.roll(A, -k, axis=-1))
    if np.abs(out - ref).max() > 1e-4 * abs(pref) * np.abs(A).max() * 10: bad, why = True, f"stencil accuracy {ACC}: differs from periodic convolution by {np.abs(out - ref).max()}"
    # plane waves are eigenvectors
    for m, l in ((1, 0), (2, 1), (N - 1, 3)):
        ii, jj = np.meshgrid(np.arange(N), np.arange(N), indexing='ij')
        w = np.exp(2j * np.pi * (m * ii + l * jj) / N).astype(np.complex64)
        lam = sum(co[k + n] * pref * (np.exp(2j * np.pi * k * m / N) + np.exp(2j * np.pi * k * l / N)) for k in range(-n, n + 1))
        o = _laplace_operator_stencil(ACC, pref, mode='wrap')(w.copy())
        if np.abs(o - lam * w).max() > 1e-3 * max(abs(lam), abs(pref)): bad, why = True, f"plane wave ({m},{l}): not an eigenvector with the analytic eigenvalue {lam}"
""", ACC=acc)


def _planewave(acc):
    rp = R_S(acc)
    n = acc // 2
    N = 2 * n + 3

    def fn(c):
        pref = c.real("prefactor")
        m = c.int("m", 0, N - 1); l = c.int("l", 0, N - 1)
        mm, ll = int(m), int(l)
        A = np.empty((N, N), dtype=object).view(snp.SymArr)
        for i in range(N):
            for j in range(N):
                A[i, j] = sx.CExp(z3.RealVal(fractions.Fraction(mm * i + ll * j, N)))
        f = FD._laplace_operator_stencil(acc, pref, mode="wrap", dtype=sx.sfloat, device="cpu")
        out = f(A)
        co = FD.finite_difference_coefficients(2, acc)
        ok = []
        for i in range(N):
            for j in range(N):
                o = out[i, j]
                terms = o.terms if isinstance(o, PSum) else [o]
                want = []
                for k in range(-n, n + 1):
                    ck = _z(float(co[k + n])) * _z(pref)
                    # eigenvalue term c_k pref exp(2 pi i k m/N) (and l) times the wave value
                    want.append(Polar(ck, z3.RealVal(fractions.Fraction(k * mm, N)) + A[i, j].tau))
                    want.append(Polar(ck, z3.RealVal(fractions.Fraction(k * ll, N)) + A[i, j].tau))
                terms = [t for t in terms if isinstance(t, Polar)]
                ok.append(len(terms) == len(want))
                if len(terms) == len(want):
                    ok += [t.same_as(w) for t, w in zip(terms, want)]
        c.prove("planewave.is_eigenvector_with_the_analytic_stencil_eigenvalue", zand(*ok), replay=rp)
    return fn


ST = z3.DeclareSort("Stencil")
MK = z3.Function("make_stencil", z3.IntSort(), z3.RealSort(), ST)


class _Wv:
    device = "cpu"

    def __init__(self, wl, s):
        self.wavelength, self.sampling = wl, s


def _cache(steps, acc):
    rp = R_C(acc)

    def fn(c):
        patch.set(FD, "_laplace_operator_stencil", lambda accuracy, prefactor, mode="wrap", dtype=None, device="cpu": Tok(MK(accuracy, _real(_z(prefactor)))))
        ops = [FD.LaplaceOperator(acc), FD.LaplaceOperator(acc)]
        for t in range(steps):
            s = (c.real(f"s{t}x", 0, lo_strict=True), c.real(f"s{t}y", 0, lo_strict=True))
            wl = c.real(f"wl{t}", 0, lo_strict=True)
            which = c.int(f"op{t}", 0, 1)
            st = ops[int(which)].get_stencil(_Wv(wl, s))
            want = MK(acc, 1 / (_z(s[0]) * _z(s[1])))
            c.prove("cache.stencil_is_the_one_for_the_current_sampling", (st.e == want) if isinstance(st, Tok) else z3.BoolVal(False), replay=rp, info=f"request {t}")
        c.canary("cache.canary", z3.BoolVal(False))
    return fn


def R_C(acc):
    return make("""
    import abtem
    from abtem.finite_difference import LaplaceOperator
    samplings = []
    for t in sorted({int(k[1]) for k in V if k.startswith('s') and k.endswith('x')}):
        samplings.append(float(np.clip(V[f's{t}x'], 0.02, 0.5)))
    if len(set(samplings)) < 2: samplings = [0.1, 0.05]
    ops = [LaplaceOperator(ACC), LaplaceOperator(ACC)]
    for t, s in enumerate(samplings):
        N = 16
        w = abtem.PlaneWave(gpts=N, sampling=s, energy=100e3).build(lazy=False)
        ii = np.arange(N)[:, None] + 0 * np.arange(N)[None]
        w._array = np.exp(2j * np.pi * ii / N).astype(np.complex64)
        op = ops[int(V.get(f'op{t}', 0)) % 2]
        out = np.asarray(op.apply(w).array)
        from abtem.finite_difference import finite_difference_coefficients
        co = finite_difference_coefficients(2, ACC); n = len(co) // 2
        lam = sum(co[k + n] / s ** 2 * (np.exp(2j * np.pi * k / N) + 1) for k in range(-n, n + 1))
        ref = lam * np.exp(2j * np.pi * ii / N)
        if np.abs(out - ref).max() > 1e-3 * abs(lam): bad, why = True, f"request {t} (sampling {s}, history {samplings}): Laplacian eigenvalue {out[0, 0] / ref[0, 0] * lam} instead of {lam}"
""", ACC=acc)


def cases(tier):
    q = tier == "quick"
    out = [Case("coefficients", _coeffs, setup=_setup)]
    for acc in (2, 4, 6) if q else (2, 4, 6, 8):
        n = acc // 2
        out.append(Case(f"stencil.acc{acc}", _stencil(acc, (2 * n + 2, 2 * n + 3)), setup=_setup, timeout_ms=60000, budget_s=300 if q else 1500))
    out.append(Case("stencil.acc2.batch", _stencil(2, (2, 3, 4)), setup=_setup))
    for acc in (2, 4) if q else (2, 4, 6):
        out.append(Case(f"planewave.acc{acc}", _planewave(acc), setup=_setup, max_paths=400, budget_s=300 if q else 1500))
    for steps in (2, 3) if q else (2, 3, 4):
        out.append(Case(f"cache.history{steps}", _cache(steps, 4), setup=_setup, max_paths=5000))
    return out
