"""C40 Center of mass and integrated gradients are exact on analytic inputs."""
import numpy as np
import z3

from engine import sx, patch, snp
from engine.run import Case
from engine.replay import make
from engine.sx import SNum, SComplex, zand, _z, _real
from harness import c14 as H

PROPERTY = "C40"
BOUNDS = {
    "quick": "patterns 2x3, 3x4, 5x4 (odd and even sizes), shifted and unshifted, units 1/A and mrad; intensities symbolic (non-negative, total 1), samplings and wavelength symbolic; "
             "single bright pixel at a symbolic index; integrated gradient on 2x3 and 3x4 grids with symbolic spectral coefficients",
    "thorough": "patterns up to 7x6; gradient grids up to 5x4 (4x4 did not finish: non-linear query)",
}
OUTSIDE = ["FFT values in integrate_gradient: the derivative theorem G^ = 2 pi i k T^ is the stated model and the routine is checked in Fourier space", "lazy evaluation",
           "the additive constant and the k = 0 regularisation"]
STUBS = ["energy2wavelength -> symbolic positive", "np.fft.fft2/ifft2 inside _integrate_gradient_2d -> spectra passed through unchanged (the harness supplies G^ and reads T^)"]
ASSUMPTIONS = ["intensities >= 0 with total 1 (the case where 'first moment' and 'weighted mean' coincide)"]

import abtem.measurements as MM

LAM = H.LAM


def _com(n0, n1, shift, units):
    rp = R_COM(n0, n1, shift, units)

    def fn(c):
        c.pc += [LAM > 0]
        s = (c.real("sx", 0, lo_strict=True), c.real("sy", 0, lo_strict=True))
        arr = sx.sym_array(c, "a", (1, n0, n1), lo=0)
        c.assume(sum((_z(x) for x in arr.ravel()), z3.RealVal(0)) == 1)
        dp = H._mk_dp(arr, s, shift)
        com = dp.center_of_mass(units=units)
        v = np.asarray(com.array, dtype=object).ravel()[0]
        v = SComplex.of(v)
        scale = (LAM * 1000) if units == "mrad" else z3.RealVal(1)
        wx = z3.RealVal(0); wy = z3.RealVal(0)
        for i in range(n0):
            for j in range(n1):
                fi = (i - n0 // 2) if shift else (i if i < (n0 + 1) // 2 else i - n0)
                fj = (j - n1 // 2) if shift else (j if j < (n1 + 1) // 2 else j - n1)
                wx = wx + _z(arr[0, i, j]) * fi * _z(s[0]) * scale
                wy = wy + _z(arr[0, i, j]) * fj * _z(s[1]) * scale
        c.output("comx", v.re)
        c.prove("com.is_intensity_weighted_mean_frequency", zand(sx.zclose(v.re, SNum(wx), rtol=1e-12, atol=1e-300), sx.zclose(v.im, SNum(wy), rtol=1e-12, atol=1e-300)), replay=rp)
        c.canary("com.canary_zero", zand(_z(v.re) == 0, _z(v.im) == 0))
    return fn


def R_COM(n0, n1, shift, units):
    return make("""
    from abtem.measurements import DiffractionPatterns
    from abtem.core.axes import ScanAxis
    from abtem.core.energy import energy2wavelength
    lam = energy2wavelength(100e3)
    s = (float(V['sx']), float(V['sy']))
    A = np.array([[[float(V[f'a_0_{i}_{j}']) for j in range(N1)] for i in range(N0)]])
    A = np.abs(A); A = A / A.sum() if A.sum() > 0 else A
    dp = DiffractionPatterns(A.astype(np.float64), sampling=s, fftshift=SHIFT, ensemble_axes_metadata=[ScanAxis(sampling=1.0)], metadata={'energy': 100e3})
    got = complex(np.asarray(dp.center_of_mass(units=UNITS).array).ravel()[0])
    f0 = (np.arange(N0) - N0 // 2) if SHIFT else np.fft.fftfreq(N0, 1 / N0); f1 = (np.arange(N1) - N1 // 2) if SHIFT else np.fft.fftfreq(N1, 1 / N1)
    sc = lam * 1e3 if UNITS == 'mrad' else 1.0
    want = complex((A[0] * f0[:, None]).sum() * s[0] * sc, (A[0] * f1[None]).sum() * s[1] * sc)
    if abs(got - want) > 1e-5 * max(abs(s[0] * N0 * sc), abs(s[1] * N1 * sc)): bad, why = True, f"center of mass {got} != intensity-weighted mean frequency {want} (fftshift={SHIFT}, units={UNITS})"
    # single bright pixels
    for i in range(N0):
        for j in range(N1):
            B = np.zeros((1, N0, N1)); B[0, i, j] = 1.0
            g = complex(np.asarray(DiffractionPatterns(B, sampling=s, fftshift=SHIFT, ensemble_axes_metadata=[ScanAxis(sampling=1.0)], metadata={'energy': 100e3}).center_of_mass(units=UNITS).array).ravel()[0])
            w = complex(f0[i] * s[0] * sc, f1[j] * s[1] * sc)
            if abs(g - w) > 1e-5 * max(abs(s[0] * N0 * sc), abs(s[1] * N1 * sc)): bad, why = True, f"single bright pixel ({i},{j}): COM {g} != its frequency {w} (fftshift={SHIFT})"
""", N0=n0, N1=n1, SHIFT=shift, UNITS=units)


def _comconc(n0, n1, shift, units):
    def f(v):
        from abtem.core.axes import ScanAxis
        A = np.array([[[v[f"a_0_{i}_{j}"] for j in range(n1)] for i in range(n0)]])
        dp = MM.DiffractionPatterns(A, sampling=(v["sx"], v["sy"]), fftshift=shift, ensemble_axes_metadata=[ScanAxis(sampling=1.0)], metadata={"energy": 100e3})
        return {"comx": float(np.asarray(dp.center_of_mass(units=units).array).ravel()[0].real)}
    return f


def _bright(n0, n1, shift):
    def fn(c):
        c.pc += [LAM > 0]
        s = (c.real("sx", 0, lo_strict=True), c.real("sy", 0, lo_strict=True))
        bi = c.int("bi", 0, n0 - 1)
        bj = c.int("bj", 0, n1 - 1)
        i0, j0 = int(bi), int(bj)
        arr = sx.obj(np.zeros((1, n0, n1)))
        arr[0, i0, j0] = 1
        dp = H._mk_dp(arr, s, shift)
        v = SComplex.of(np.asarray(dp.center_of_mass().array, dtype=object).ravel()[0])
        fi = (i0 - n0 // 2) if shift else (i0 if i0 < (n0 + 1) // 2 else i0 - n0)
        fj = (j0 - n1 // 2) if shift else (j0 if j0 < (n1 + 1) // 2 else j0 - n1)
        c.prove("com.single_bright_pixel_gives_its_own_frequency", zand(sx.zclose(v.re, SNum(fi * _z(s[0])), rtol=1e-12, atol=1e-300), sx.zclose(v.im, SNum(fj * _z(s[1])), rtol=1e-12, atol=1e-300)),
                replay=R_COM(n0, n1, shift, "1/Å"))
    return fn


def _gradient(n0, n1):
    rp = R_G(n0, n1)

    def fn(c):
        c.pc += sx.pi_axioms()
        s = (c.real("sx", 0, lo_strict=True), c.real("sy", 0, lo_strict=True))
        T = sx.sym_array(c, "t", (n0, n1), kind="complex")
        kx = [((i if i < (n0 + 1) // 2 else i - n0)) / (n0 * _z(s[0])) for i in range(n0)]
        ky = [((j if j < (n1 + 1) // 2 else j - n1)) / (n1 * _z(s[1])) for j in range(n1)]
        Gx = np.empty((n0, n1), dtype=object); Gy = np.empty((n0, n1), dtype=object)
        for i in range(n0):
            for j in range(n1):
                t = SComplex.of(T[i, j])
                # derivative theorem: G^ = 2 pi i k T^
                Gx[i, j] = SComplex(SNum(-2 * sx.PI * kx[i] * _z(t.im)), SNum(2 * sx.PI * kx[i] * _z(t.re)))
                Gy[i, j] = SComplex(SNum(-2 * sx.PI * ky[j] * _z(t.im)), SNum(2 * sx.PI * ky[j] * _z(t.re)))
        captured = {}

        class _FFT:
            fftfreq = staticmethod(snp.fftfreq)

            @staticmethod
            def fft2(a, **k):
                return a.spec

            @staticmethod
            def ifft2(a, **k):
                captured["That"] = a
                return np.zeros((n0, n1))

        class Spec:  # carries the spectrum of a real-space field whose values are not needed
            def __init__(self, spec):
                self.spec = spec
                self.shape = spec.shape

        class Grad:
            real = Spec(Gx.view(snp.SymArr))
            imag = Spec(Gy.view(snp.SymArr))

        sh = snp.make_shim(pi=True, fft=_FFT, min=lambda a: 0.0, real=lambda a: a)
        patch.set(MM, "get_array_module", lambda *a, **k: sh)
        patch.set(MM, "np", sh)
        MM._integrate_gradient_2d(Grad, s)
        That = captured["That"]
        ok = []
        for i in range(n0):
            for j in range(n1):
                if i == 0 and j == 0:
                    ok.append(sx.zeq(SComplex.of(That[0, 0]), SComplex(0, 0)))
                else:
                    ok.append(sx.zeq(SComplex.of(That[i, j]), SComplex.of(T[i, j])))
        for k, f in enumerate(ok):
            c.prove("integrate_gradient.recovers_every_nonzero_frequency_coefficient", f, replay=rp, info=k)
        c.canary("integrate_gradient.canary", sx.zeq(SComplex.of(That[0, 1]), SComplex(0, 0)))
    return fn


def R_G(n0, n1):
    return make("""
    from abtem.measurements import _integrate_gradient_2d
    s = (float(V['sx']), float(V['sy']))
    rng = np.random.default_rng(0)
    x = np.arange(N0)[:, None] * s[0]; y = np.arange(N1)[None] * s[1]; Lx, Ly = N0 * s[0], N1 * s[1]
    T = np.zeros((N0, N1)); gx = np.zeros((N0, N1)); gy = np.zeros((N0, N1))
    for m in range(0, (N0 - 1) // 2 + 1):
        for n in range(0, (N1 - 1) // 2 + 1):
            if m == n == 0: continue
            a, ph = rng.random() + 0.5, rng.random() * 6
            arg = 2 * np.pi * (m * x / Lx + n * y / Ly) + ph
            T += a * np.cos(arg); gx += -a * np.sin(arg) * 2 * np.pi * m / Lx; gy += -a * np.sin(arg) * 2 * np.pi * n / Ly
    out = _integrate_gradient_2d(gx + 1j * gy, s)
    err = np.abs((out - out.min()) - (T - T.min())).max()
    if err > 1e-6 * max(1.0, np.abs(T).max()): bad, why = True, f"integrated gradient differs from the generating band-limited field by {err}"
""", N0=n0, N1=n1)


def cases(tier):
    q = tier == "quick"
    out = []
    for n0, n1 in ((2, 3), (3, 4), (5, 4)) if q else ((2, 3), (3, 4), (5, 4), (7, 6)):
        for shift in (True, False):
            for units in ("1/Å", "mrad"):
                vec = []
                if (n0, n1) == (2, 3):
                    vec = [dict({f"a_0_{i}_{j}": [0.1, 0.2, 0.05, 0.3, 0.15, 0.2][i * 3 + j] for i in range(2) for j in range(3)}, sx=0.05, sy=0.08)]
                out.append(Case(f"com.{n0}x{n1}.{'shifted' if shift else 'unshifted'}.{'mrad' if units == 'mrad' else 'invA'}", _com(n0, n1, shift, units), setup=H._setup,
                                concrete=_comconc(n0, n1, shift, units) if units != "mrad" else None, vectors=vec if units != "mrad" else (), tol=1e-6))
            out.append(Case(f"bright.{n0}x{n1}.{'shifted' if shift else 'unshifted'}", _bright(n0, n1, shift), setup=H._setup, max_paths=400))
    for n0, n1 in ((2, 3), (3, 4)) if q else ((2, 3), (3, 4), (3, 5), (5, 4)):
        out.append(Case(f"gradient.{n0}x{n1}", _gradient(n0, n1), setup=H._setup, budget_s=240 if q else 1500))
    return out
