"""C08 Potentials are covariant under translations and supercell repetition (delta superposition and tiling index logic)."""
import numpy as np
import z3

from engine import sx, patch, snp
from engine.run import Case
from engine.replay import make
from engine.sx import SNum, zand, _z, _real

PROPERTY = "C08"
BOUNDS = {
    "quick": "superpose_deltas: one atom on 3x4 / 4x3 grids at symbolic sub-pixel positions anywhere in [-1, shape+1) (every pixel incl. the wrap-around rows/columns, case-split); "
             "two atoms on 2x3 / 3x2 grids (every pair of pixels incl. same, adjacent and wrapped); symbolic weights; symbolic whole-pixel shifts in [-2, 2]; FieldArray.tile with symbolic slice contents (2x2 unit, repetitions up to 2x3x2)",
    "thorough": "grids up to 5x5, 3 atoms",
}
OUTSIDE = ["the scattering-factor multiplication in Fourier space (a pointwise product that commutes with the roll by the shift theorem)",
           "finite-projection radial interpolation values", "non-orthogonal cells"]
STUBS = ["np.floor / astype(int32) -> integer floor", "np.add.at -> accumulation at case-split integer indices"]
ASSUMPTIONS = ["positions are given in pixels (as superpose_deltas receives them)"]

import abtem.integrals as I
from abtem.potentials.iam import PotentialArray


def _setup():
    patch.patch(I)


def _spec(shape, pos, w):
    """first-principles bilinear spreading of one delta: dict pixel -> z3 term"""
    out = {}
    fx, fy = pos
    r, c = sx.sint(SNum(z3.ToInt(_real(_z(fx))))), sx.sint(SNum(z3.ToInt(_real(_z(fy)))))
    return r, c


def _deltas(shape, natoms, rounded=False):
    rp = R_D(shape, natoms, rounded)

    def fn(c):
        P = sx.sym_array(c, "p", (natoms, 2))
        W = sx.sym_array(c, "w", (natoms,))
        for a in range(natoms):
            for d in range(2):
                lo, hi = (-1, shape[d] + 1) if natoms == 1 else (0, shape[d])
                c.assume(P[a, d] >= lo)
                c.assume(P[a, d] < hi)
        base = sx.sym_array(c, "b", shape)
        arr = base.copy()
        out = I.superpose_deltas(P, arr, weights=W, round_positions=rounded)
        # first-principles result: per atom, four corner weights at periodic indices
        want = np.empty(shape, dtype=object)
        for i in np.ndindex(shape):
            want[i] = _z(base[i])
        tot = z3.RealVal(0)
        for a in range(natoms):
            x, y = _real(_z(P[a, 0])), _real(_z(P[a, 1]))
            if rounded:
                r = c.concretize(z3.ToInt(x + z3.RealVal("1/2"))); s = c.concretize(z3.ToInt(y + z3.RealVal("1/2")))
                want[r % shape[0], s % shape[1]] = want[r % shape[0], s % shape[1]] + _z(W[a])
                continue
            r = c.concretize(z3.ToInt(x)); s = c.concretize(z3.ToInt(y))
            fx, fy = x - r, y - s
            for (dr, ds, wt) in ((0, 0, (1 - fx) * (1 - fy)), (1, 0, fx * (1 - fy)), (0, 1, (1 - fx) * fy), (1, 1, fx * fy)):
                k = ((r + dr) % shape[0], (s + ds) % shape[1])
                want[k] = want[k] + _z(W[a]) * wt
        ok = [_z(out[i]) == want[i] for i in np.ndindex(shape)]
        name = "deltas.rounded_to_nearest_pixel_periodic" if rounded else "deltas.bilinear_weights_on_periodic_corner_pixels_and_additive_over_atoms"
        c.prove(name, zand(*ok), replay=rp)
        c.prove("deltas.total_added_is_sum_of_weights", sum((_z(out[i]) - _z(base[i]) for i in np.ndindex(shape)), z3.RealVal(0)) == sum((_z(w) for w in W), z3.RealVal(0)), replay=rp)
        if natoms == 1 and not rounded:
            c.canary("deltas.canary_single_pixel", zand(*[z3.Or(_z(out[i]) == _z(base[i]), _z(out[i]) == _z(base[i]) + _z(W[0])) for i in np.ndindex(shape)]))
    return fn


def R_D(shape, natoms, rounded):
    return make("""
    from abtem.integrals import superpose_deltas
    P = np.array([[float(V[f'p_{a}_0']), float(V[f'p_{a}_1'])] for a in range(NA)]); W = np.array([float(V[f'w_{a}']) for a in range(NA)], dtype=np.float64)
    out = superpose_deltas(P.copy(), np.zeros(SHAPE, np.float64), weights=W, round_positions=ROUNDED)
    want = np.zeros(SHAPE)
    for a in range(NA):
        x, y = P[a]
        if ROUNDED:
            want[int(np.round(x)) % SHAPE[0], int(np.round(y)) % SHAPE[1]] += W[a]; continue
        r, s = int(np.floor(x)), int(np.floor(y)); fx, fy = x - r, y - s
        for dr, ds, wt in ((0, 0, (1 - fx) * (1 - fy)), (1, 0, fx * (1 - fy)), (0, 1, (1 - fx) * fy), (1, 1, fx * fy)):
            want[(r + dr) % SHAPE[0], (s + ds) % SHAPE[1]] += W[a] * wt
    if np.abs(out - want).max() > 1e-9 * max(1.0, np.abs(W).max()): bad, why = True, f"superpose_deltas({P.tolist()}, weights {W.tolist()}) = {out.tolist()}, expected {want.tolist()}"
    # whole-pixel translation = periodic roll
    for sh in ((1, 0), (0, 1), (2, 3), (-1, -2)):
        o2 = superpose_deltas(P + np.array(sh), np.zeros(SHAPE, np.float64), weights=W, round_positions=ROUNDED)
        if np.abs(o2 - np.roll(out, sh, (0, 1))).max() > 1e-9 * max(1.0, np.abs(W).max()): bad, why = True, f"translating by {sh} pixels is not a roll"
""", SHAPE=tuple(shape), NA=natoms, ROUNDED=rounded)


def _shift(shape):
    rp = R_D(shape, 1, False)

    def fn(c):
        P = sx.sym_array(c, "p", (1, 2))
        W = sx.sym_array(c, "w", (1,))
        for d in range(2):
            c.assume(P[0, d] >= 0)
            c.assume(P[0, d] < shape[d])
        p = c.int("shift0", -2, 2); q = c.int("shift1", -2, 2)
        z = lambda: np.array([[SNum(z3.RealVal(0)) for _ in range(shape[1])] for _ in range(shape[0])], dtype=object).view(snp.SymArr)
        a0 = I.superpose_deltas(P, z(), weights=W)
        P2 = sx.obj([[P[0, 0] + p, P[0, 1] + q]])
        a1 = I.superpose_deltas(P2, z(), weights=W)
        pp, qq = int(p), int(q)
        ref = np.roll(np.asarray(a0), (pp, qq), (0, 1))
        c.prove("deltas.whole_pixel_translation_is_periodic_roll", zand(*[_z(a1[i]) == _z(ref[i]) for i in np.ndindex(shape)]), replay=rp)
    return fn


def _tile(reps):
    def fn(c):
        A = sx.sym_array(c, "a", (2, 2, 2))
        pot = PotentialArray(np.zeros((2, 2, 2), dtype=np.float32), slice_thickness=(0.5, 0.75), sampling=0.5)
        pot._array = A
        t = pot.tile(reps)
        r = reps if len(reps) == 3 else (reps[0], reps[1], 1)
        T = np.asarray(t.array, dtype=object)
        ok = [T.shape == (2 * r[2], 2 * r[0], 2 * r[1])]
        if ok[0]:
            for i in np.ndindex(T.shape):
                ok.append(_z(T[i]) == _z(A[i[0] % 2, i[1] % 2, i[2] % 2]))
        ok.append(tuple(t.slice_thickness) == (0.5, 0.75) * r[2])
        ok.append(abs(t.extent[0] - pot.extent[0] * r[0]) < 1e-12 and abs(t.extent[1] - pot.extent[1] * r[1]) < 1e-12)
        c.prove("tile.tiled_potential_repeats_the_unit_periodically", zand(*ok), replay=None)
    return fn


def cases(tier):
    q = tier == "quick"
    out = []
    for shape in ((3, 4), (4, 3)) if q else ((3, 4), (4, 3), (5, 5)):
        out.append(Case(f"deltas.{shape[0]}x{shape[1]}.atoms1", _deltas(shape, 1), setup=_setup, max_paths=20000, budget_s=300 if q else 1800))
    for shape in ((2, 3), (3, 2)) if q else ((2, 3), (3, 2), (3, 4)):
        out.append(Case(f"deltas.{shape[0]}x{shape[1]}.atoms2", _deltas(shape, 2), setup=_setup, max_paths=20000, budget_s=300 if q else 1800))
        out.append(Case(f"shift.{shape[0]}x{shape[1]}", _shift(shape), setup=_setup, max_paths=20000, budget_s=300 if q else 1800))
    for reps in ((1, 1), (2, 3), (2, 1, 2), (1, 2, 3)):
        out.append(Case("tile." + "x".join(map(str, reps)), _tile(reps), setup=_setup))
    return out
