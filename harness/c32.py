"""C32 API calls do not modify caller-owned inputs -- the measurement half: methods that return a new measurement leave
the receiver's array, metadata and axes unchanged (symbolic array contents, symbolic metadata values)."""
import copy

import numpy as np
import z3

from engine import sx, patch, snp
from engine.run import Case
from engine.replay import make
from engine.sx import SNum, SComplex, SBool, zand, _z

PROPERTY = "C32"
BOUNDS = {
    "quick": "receivers: Images, DiffractionPatterns, RealSpaceLineProfiles, PolarMeasurements with a 2x2 (1x2x2 with one ensemble axis) array of symbolic complex or real entries, "
             "metadata {'label': symbolic string, 'units': symbolic string, 'energy': symbolic real}, symbolic samplings; methods: real, imag, phase, abs, intensity, "
             "Images.interpolate(fft)/crop/tile/diffractograms/integrate_gradient, DiffractionPatterns.crop/block_direct/center_of_mass/integrate_radial/interpolate, "
             "PolarMeasurements.integrate, sum/mean/std/min/max over the ensemble axis, squeeze/expand_dims/__getitem__, relative_difference, normalize_ensemble (every shift x scale option), identity-like calls (same-grid interpolate, tile((1,1)), m[:], squeeze of nothing), arithmetic (+ - * /)",
    "thorough": "same methods, additionally on 2x4 arrays with an ensemble axis of two members",
}
OUTSIDE = ["the ASE half of the property (orthogonalize_cell, standardize_cell, Potential, FrozenPhonons, StructureFactor, BlochWaves leave the caller's Atoms unchanged): ASE coerces "
           "positions and cell to float64 buffers, no symbolic value reaches the code, and whether a C-level buffer is written is not a question a solver over this encoding can answer",
           "methods not listed in the bound (show/to_* exporters, gaussian_filter's scipy code, poisson_noise: C31)", "lazy (dask) receivers",
           "buffer-level writes by compiled FFT code: fft calls with overwrite_x=True are MODELLED as destroying their input (the input entries are replaced by fresh unconstrained symbols), "
           "which is the contract of the flag, not the behaviour of a particular backend"]
STUBS = ["fft2/ifft2/fftn -> exact DFT for lengths 1, 2, 4; with overwrite_x=True the input array is clobbered first", "np.angle/abs/sqrt -> atan2 / sqrt models",
         "energy2wavelength -> symbolic positive"]
ASSUMPTIONS = ["samplings > 0; the receiver is eager"]

import abtem.measurements as MM
import abtem.core.fft as F
import abtem.core.axes as AX
import abtem.array as A
from abtem.core.axes import OrdinalAxis, ScanAxis


class MStr:
    """symbolic metadata string"""

    def __init__(self, e):
        self.e = e

    def _other(self, o):
        if isinstance(o, MStr):
            return o.e
        if isinstance(o, str):
            return z3.StringVal(o)
        return None

    def __eq__(self, o):
        e = self._other(o)
        return NotImplemented if e is None else SBool(self.e == e)

    def __ne__(self, o):
        e = self._other(o)
        return NotImplemented if e is None else SBool(self.e != e)

    __hash__ = None

    def __deepcopy__(self, memo):
        return MStr(self.e)

    def __copy__(self):
        return MStr(self.e)

    def __repr__(self):
        return f"MStr({self.e})"


def _clobbering(fn):
    def wrapped(a, *args, overwrite_x=False, **k):
        out = fn(a, *args, **k)
        if overwrite_x and isinstance(a, np.ndarray) and a.dtype == object:
            c = sx.Ctx.cur
            for idx in np.ndindex(a.shape):
                a[idx] = SComplex(c.fresh_real("clob_re"), c.fresh_real("clob_im")) if hasattr(c, "fresh_real") else SNum(z3.FreshReal("clob"))
        return out
    return wrapped


def _setup():
    import warnings
    warnings.filterwarnings("ignore")
    patch.patch(F)
    patch.patch(MM)
    patch.patch(AX)
    import abtem.core.grid as G
    patch.patch(G)
    patch.set(A, "isinstance", sx.sisinstance)
    patch.set(F, "fft2", _clobbering(lambda a, **k: snp.exact_fftn(a, (-2, -1), False)))
    patch.set(F, "ifft2", _clobbering(lambda a, **k: snp.exact_fftn(a, (-2, -1), True)))
    patch.set(MM, "fft2", _clobbering(lambda a, **k: snp.exact_fftn(a, (-2, -1), False)))
    patch.set(MM, "ifft2", _clobbering(lambda a, **k: snp.exact_fftn(a, (-2, -1), True)))
    patch.set(MM, "energy2wavelength", lambda e: SNum(z3.Real("lam")))

    def abs2(a):
        out = np.empty(np.shape(a), dtype=object)
        for idx in np.ndindex(out.shape):
            out[idx] = sx.cabs2(a[idx])
        return out
    patch.set(MM, "abs2", abs2)


# ---- receivers -----------------------------------------------------------------------------------------------------------
def _meta(c):
    return {"label": MStr(c.string("label") if hasattr(c, "string") else _str_input(c, "label")), "units": MStr(_str_input(c, "units")), "energy": c.real("energy", 1, lo_strict=False)}


def _str_input(c, name):
    v = z3.String(name)
    c.inputs[name] = v
    return v


def _mk(c, kind, cplx, ens, shape=(2, 2), nens=1):
    full = ((nens,) if ens else ()) + shape
    arr = sx.sym_array(c, "a", full, kind="complex" if cplx else "real")
    md = {"label": MStr(_str_input(c, "label")), "units": MStr(_str_input(c, "units")), "energy": c.real("energy", 1)}
    eax = [OrdinalAxis(label="e", values=tuple(range(nens)))] if ens else []
    s0 = c.real("s0", 0, lo_strict=True)
    s1 = c.real("s1", 0, lo_strict=True)
    z = np.zeros(full, dtype=np.complex64 if cplx else np.float32)
    if kind == "images":
        m = MM.Images(z, sampling=(s0, s1), ensemble_axes_metadata=eax, metadata=md)
    elif kind == "patterns":
        m = MM.DiffractionPatterns(z, sampling=(s0, s1), fftshift=True, ensemble_axes_metadata=eax, metadata=md)
    elif kind == "lines":
        full = ((nens,) if ens else ()) + shape[-1:]
        arr = sx.sym_array(c, "a", full, kind="complex" if cplx else "real")
        m = MM.RealSpaceLineProfiles(np.zeros(full, dtype=z.dtype), sampling=s0, ensemble_axes_metadata=eax, metadata=md)
    elif kind == "polar":
        m = MM.PolarMeasurements(z, radial_sampling=s0, azimuthal_sampling=s1, radial_offset=c.real("ro", 0), azimuthal_offset=c.real("ao"),
                                 ensemble_axes_metadata=eax, metadata=md)
    else:
        raise ValueError(kind)
    m._array = arr
    return m


def _snapshot(m):
    arr = m._array
    elems = [x for x in np.asarray(arr, dtype=object).ravel()]
    axes = []
    for ax in m.axes_metadata:
        axes.append((type(ax).__name__, {k: v for k, v in vars(ax).items()}))
    return {"array_obj": arr, "shape": arr.shape, "elems": elems, "metadata": dict(m.metadata), "meta_obj": m.metadata, "axes": axes}


def _val_eq(a, b):
    if isinstance(a, MStr) or isinstance(b, MStr):
        x = a.e if isinstance(a, MStr) else (z3.StringVal(a) if isinstance(a, str) else None)
        y = b.e if isinstance(b, MStr) else (z3.StringVal(b) if isinstance(b, str) else None)
        return z3.BoolVal(False) if x is None or y is None else x == y
    if isinstance(a, (SNum, int, float)) and isinstance(b, (SNum, int, float)) and not isinstance(a, bool):
        return _z(a) == _z(b)
    if isinstance(a, (tuple, list)) and isinstance(b, (tuple, list)):
        if len(a) != len(b):
            return z3.BoolVal(False)
        return zand(*[_val_eq(x, y) for x, y in zip(a, b)])
    try:
        return z3.BoolVal(bool(a == b))
    except Exception:  # noqa: BLE001
        return z3.BoolVal(a is b)


def _elem_eq(a, b):
    if isinstance(a, SComplex) or isinstance(b, SComplex):
        a, b = SComplex.of(a), SComplex.of(b)
        return z3.And(_z(a.re) == _z(b.re), _z(a.im) == _z(b.im))
    return _z(a) == _z(b)


def _unchanged(c, m, snap, what, replay, info=None):
    arr = m._array
    same = [arr.shape == snap["shape"]]
    if arr.shape == snap["shape"]:
        same += [_elem_eq(x, y) for x, y in zip(np.asarray(arr, dtype=object).ravel(), snap["elems"])]
    c.prove(f"{what}.receiver_array_unchanged", zand(*same), replay=replay, info=info)
    md = m.metadata
    keys = sorted(set(md) | set(snap["metadata"]))
    conds = []
    for k in keys:
        if k not in md or k not in snap["metadata"]:
            conds.append(z3.BoolVal(False))
        else:
            conds.append(_val_eq(md[k], snap["metadata"][k]))
    c.prove(f"{what}.receiver_metadata_unchanged", zand(*conds), replay=replay)
    axes = [(type(ax).__name__, dict(vars(ax))) for ax in m.axes_metadata]
    conds = [len(axes) == len(snap["axes"])]
    for (t0, d0), (t1, d1) in zip(snap["axes"], axes):
        conds.append(t0 == t1)
        for k in sorted(set(d0) | set(d1)):
            conds.append(_val_eq(d0.get(k), d1.get(k)) if k in d0 and k in d1 else z3.BoolVal(False))
    c.prove(f"{what}.receiver_axes_unchanged", zand(*conds), replay=replay)


def _outer(m, c):
    c.assume(_z(m.sampling[0]) <= _z(m.sampling[1]))
    c.assume(z3.Real("lam") > 0)
    return m.sampling[0] * SNum(z3.Real("lam")) * 400


METHODS = {
    # name: (receiver kinds, complex?, ensemble?, call, replay call source)
    "real": (("images", "patterns", "lines", "polar"), True, False, lambda m, c: m.real(), "m.real()"),
    "imag": (("images", "patterns", "lines", "polar"), True, False, lambda m, c: m.imag(), "m.imag()"),
    "phase": (("images", "patterns", "lines", "polar"), True, False, lambda m, c: m.phase(), "m.phase()"),
    "abs": (("images", "patterns", "lines", "polar"), True, False, lambda m, c: m.abs(), "m.abs()"),
    "abs_real": (("images", "polar"), False, False, lambda m, c: m.abs(), "m.abs()"),
    "intensity": (("images", "patterns", "lines", "polar"), True, False, lambda m, c: m.intensity(), "m.intensity()"),
    "add": (("images", "patterns"), False, False, lambda m, c: m + m, "m + m"),
    "sub_scalar": (("images", "polar"), False, False, lambda m, c: m - 2, "m - 2"),
    "mul_scalar": (("images", "lines"), True, False, lambda m, c: m * 3, "m * 3"),
    "div_scalar": (("images",), False, False, lambda m, c: m / 2, "m / 2"),
    "sum_axis": (("images", "patterns", "polar"), False, True, lambda m, c: m.sum(0), "m.sum(0)"),
    "mean_axis": (("images", "lines"), False, True, lambda m, c: m.mean(0), "m.mean(0)"),
    "squeeze": (("images", "patterns", "polar"), False, True, lambda m, c: m.squeeze(), "m.squeeze()"),
    "expand_dims": (("images", "polar"), False, False, lambda m, c: m.expand_dims((0,)), "m.expand_dims((0,))"),
    "getitem": (("images", "patterns", "lines"), False, True, lambda m, c: m[0], "m[0]"),
    "relative_difference": (("images",), False, False, lambda m, c: m.relative_difference(m.copy()), "m.relative_difference(m.copy())"),
    "tile": (("images",), False, False, lambda m, c: m.tile((2, 1)), "m.tile((2, 1))"),
    "interpolate_fft": (("images",), False, False, lambda m, c: m.interpolate(gpts=(4, 4), method="fft"), "m.interpolate(gpts=(4, 4), method='fft')"),
    "diffractograms": (("images",), False, False, lambda m, c: m.diffractograms(), "m.diffractograms()"),
    "integrate_radial": (("patterns",), False, False, lambda m, c: m.integrate_radial(0, _outer(m, c)), "m.integrate_radial(0, 0.4 * min(m.angular_sampling))"),
    "center_of_mass": (("patterns",), False, True, lambda m, c: m.center_of_mass(units="1/Å"), "m.center_of_mass(units='1/Å')"),
    "block_direct": (("patterns",), False, False, lambda m, c: m.block_direct(radius=1.0), "m.block_direct(radius=1.0)"),
    "polar_integrate": (("polar",), False, False, lambda m, c: m.integrate(), "m.integrate()"),
    "to_measurement_ensemble": (("images",), False, False, lambda m, c: m.to_measurement_ensemble() if hasattr(m, "to_measurement_ensemble") else m.copy(), "m.copy()"),
    "normalize_ensemble": (("images", "patterns"), False, True, lambda m, c: m.normalize_ensemble(), "m.normalize_ensemble()"),
    "images_crop": (("images",), False, False, lambda m, c: m.crop(extent=(m.sampling[0], m.sampling[1])), "m.crop(extent=(m.sampling[0], m.sampling[1]))"),
    "patterns_crop": (("patterns",), False, False, lambda m, c: m.crop(max_angle=_outer(m, c)), "m.crop(max_angle=0.4 * min(m.angular_sampling))"),
    "patterns_interpolate": (("patterns",), False, False, lambda m, c: m.interpolate(sampling=(m.sampling[0] * 2, m.sampling[1] * 2)), "m.interpolate(sampling=(m.sampling[0] * 2, m.sampling[1] * 2))"),
    "integrate_gradient": (("images",), True, False, lambda m, c: m.integrate_gradient(), "m.integrate_gradient()"),
    "min_max": (("images", "polar"), False, True, lambda m, c: (m.max(0), m.min(0))[0], "m.max(0)"),
    "std_axis": (("images",), False, True, lambda m, c: m.std(0), "m.std(0)"),
    "copy": (("images", "patterns", "lines", "polar"), True, True, lambda m, c: m.copy(), "m.copy()"),
}


for _shift in ("none", "mean", "min", "max"):
    for _scale in ("max", "sum", "ptp", "mean"):
        if (_shift, _scale) == ("mean", "max"):
            continue  # the default call above
        METHODS[f"normalize_ensemble_{_shift}_{_scale}"] = (("images", "lines"), False, True, (lambda sh, sc: lambda m, c: m.normalize_ensemble(scale=sc, shift=sh))(_shift, _scale),
                                                              f"m.normalize_ensemble(scale={_scale!r}, shift={_shift!r})")
METHODS["interpolate_fft_same_grid"] = (("images",), False, False, lambda m, c: m.interpolate(gpts=(2, 2), method="fft"), "m.interpolate(gpts=m.base_shape, method='fft')")
METHODS["tile_identity"] = (("images",), False, False, lambda m, c: m.tile((1, 1)), "m.tile((1, 1))")
METHODS["getitem_slice"] = (("images", "polar"), False, True, lambda m, c: m[:], "m[:]")
METHODS["squeeze_nothing"] = (("images",), False, False, lambda m, c: m.squeeze(), "m.squeeze()")
METHODS["sum_keepdims_like"] = (("images",), False, True, lambda m, c: m.sum((0,)), "m.sum((0,))")


def _method(kind, name, shape=(2, 2), nens=1):
    kinds, cplx, ens, call, src = METHODS[name]
    rp = R_M(kind, cplx, ens, src)

    def fn(c):
        m = _mk(c, kind, cplx, ens, shape, nens)
        snap = _snapshot(m)
        raised = "returned"
        try:
            out = call(m, c)
        except sx.Abort:
            raise
        except Exception as ex:  # noqa: BLE001  the method refuses this receiver: nothing may have changed either
            out = None
            raised = "raised " + repr(ex)[:160]
        _unchanged(c, m, snap, name, rp, info=raised)
        c.canary(f"{name}.canary_label_is_fixed", m.metadata["label"].e == z3.StringVal("L") if isinstance(m.metadata.get("label"), MStr) else z3.BoolVal(False))
    return fn


def R_M(kind, cplx, ens, src):
    return make("""
    import copy
    from abtem.measurements import Images, DiffractionPatterns, RealSpaceLineProfiles, PolarMeasurements
    from abtem.core.axes import OrdinalAxis
    rng = np.random.default_rng(1)
    shape = ((1,) if ENS else ()) + ((4,) if KIND == 'lines' else (4, 4))
    a = rng.random(shape) + (1j * rng.random(shape) if CPLX else 0)
    a = a.astype(np.complex64 if CPLX else np.float32)
    md = {'label': str(V.get('label', 'L')), 'units': str(V.get('units', 'U')), 'energy': float(V.get('energy', 1e5)) or 1e5}
    eax = [OrdinalAxis(label='e', values=(0,))] if ENS else []
    s0, s1 = float(V.get('s0', 0.1)) or 0.1, float(V.get('s1', 0.2)) or 0.2
    if KIND == 'images': m = Images(a, sampling=(s0, s1), ensemble_axes_metadata=eax, metadata=md)
    elif KIND == 'patterns': m = DiffractionPatterns(a, sampling=(s0, s1), fftshift=True, ensemble_axes_metadata=eax, metadata=md)
    elif KIND == 'lines': m = RealSpaceLineProfiles(a, sampling=s0, ensemble_axes_metadata=eax, metadata=md)
    else: m = PolarMeasurements(a, radial_sampling=s0, azimuthal_sampling=s1, radial_offset=float(V.get('ro', 0)), azimuthal_offset=float(V.get('ao', 0)), ensemble_axes_metadata=eax, metadata=md)
    a0 = m.array.copy(); md0 = copy.deepcopy(m.metadata); ax0 = [copy.deepcopy(vars(x)) for x in m.axes_metadata]
    try:
        out = eval(SRC)
    except Exception as ex:
        out = None
    if m.array.shape != a0.shape or not np.array_equal(m.array, a0, equal_nan=True):
        bad, why = True, f"{SRC}: the receiver's array changed"
    elif m.metadata != md0:
        bad, why = True, f"{SRC}: the receiver's metadata changed {md0} -> {m.metadata}"
    elif [repr(vars(x)) for x in m.axes_metadata] != [repr(x) for x in ax0]:
        bad, why = True, f"{SRC}: the receiver's axes metadata changed"
""", KIND=kind, CPLX=cplx, ENS=ens, SRC=src)


def cases(tier):
    out = []
    for name, (kinds, cplx, ens, call, src) in METHODS.items():
        for kind in kinds:
            out.append(Case(f"{name}.{kind}", _method(kind, name), setup=_setup))
            if tier != "quick":
                if name == "min_max":  # every comparison forks: keep the array small
                    out.append(Case(f"{name}.{kind}.1x2.ens2", _method(kind, name, (1, 2), 2), setup=_setup, budget_s=600))
                else:
                    out.append(Case(f"{name}.{kind}.2x4.ens2", _method(kind, name, (2, 4), 2), setup=_setup, budget_s=600))
    return out
