"""C35 Axis metadata behaves like the value sequences it describes."""
import dataclasses
import inspect

import numpy as np
import z3

from engine import sx, patch, snp
from engine.run import Case
from engine.replay import make
from engine.sx import SNum, zand, _z, _zb

PROPERTY = "C35"
BOUNDS = {
    "quick": "every axis dataclass defined in abtem.core.axes; numeric fields symbolic reals, ordinal values symbolic (length <= 5; scalars and 2-tuples); integer indices, "
             "slices with symbolic start/stop/step in [-7, 7] (step != 0), integer index arrays (length <= 3) and boolean masks (all 2^n) case-split by the solver; "
             "LinearAxis.coordinates for n <= 8 with symbolic offset and sampling",
    "thorough": "ordinal values up to length 7, slices in [-10, 10]",
}
OUTSIDE = ["string formatting of axes (titles, labels)", "lazy blocks (_to_blocks)", "numpy arrays as field values other than through tolist()"]
STUBS = ["np.linspace -> start + i*(stop-start)/n"]
ASSUMPTIONS = []

import abtem.core.axes as AX


def _setup():
    patch.patch(AX)


def _axis_classes():
    out = []
    for name, cls in vars(AX).items():
        if inspect.isclass(cls) and dataclasses.is_dataclass(cls) and cls.__module__ == AX.__name__ and issubclass(cls, AX.AxisMetadata):
            out.append(cls)
    return sorted(out, key=lambda c: c.__name__)


def _mk(cls, c, tag=""):
    kw = {}
    for f in dataclasses.fields(cls):
        if f.name in ("sampling", "offset"):
            kw[f.name] = c.real(f"{tag}{f.name}")
        elif f.name == "values":
            if issubclass(cls, (AX.TiltAxis, AX.PositionsAxis)):
                kw["values"] = tuple((c.real(f"{tag}v{i}x"), c.real(f"{tag}v{i}y")) for i in range(3))
            else:
                kw["values"] = tuple(c.real(f"{tag}v{i}") for i in range(3))
        elif f.name == "label":
            kw["label"] = ("lab", "", None)[int(c.int(f"{tag}label_kind", 0, 2))]
        elif f.name == "units" :
            kw["units"] = ("mrad", "", None)[int(c.int(f"{tag}units_kind", 0, 2))]  # unset (None) and empty text fields must survive too
        elif f.type in ("bool", bool) and f.name.startswith("_"):
            kw[f.name] = bool(c.bool(f"{tag}{f.name}"))
    return cls(**kw), kw


def _same_field(a, b):
    if isinstance(a, (tuple, list)) and isinstance(b, (tuple, list)):
        return zand(len(a) == len(b), *[_same_field(x, y) for x, y in zip(a, b)])
    if isinstance(a, (SNum, int, float)) and isinstance(b, (SNum, int, float)) and not isinstance(a, bool):
        return _z(a) == _z(b)
    return z3.BoolVal(a == b)


def _roundtrip(cls):
    def fn(c):
        ax, kw = _mk(cls, c)
        d = AX.axis_to_dict(ax)
        back = AX.axis_from_dict(d)
        ok = [type(back) is cls, d.get("type") == cls.__name__]
        for f in dataclasses.fields(cls):
            ok.append(_same_field(getattr(back, f.name), getattr(ax, f.name)))
        c.prove("roundtrip.dict_and_back_is_equal_axis", zand(*ok), replay=R_RT(cls.__name__))
        # a serialised dict only holds plain python data
        c.prove("roundtrip.dict_lists_every_field", zand(*[f.name in d for f in dataclasses.fields(cls)]), replay=R_RT(cls.__name__))
    return fn


def R_RT(name):
    return make("""
    import dataclasses, json
    import abtem.core.axes as AX
    cls = getattr(AX, NAME)
    kw = {}
    for f in dataclasses.fields(cls):
        if f.name in ('sampling', 'offset'): kw[f.name] = float(V.get(f.name, 0.37))
        elif f.name == 'values': kw['values'] = tuple((1.5 * i, -2.0 * i) for i in range(3)) if issubclass(cls, (AX.TiltAxis, AX.PositionsAxis)) else tuple(float(V.get(f'v{i}', i + 0.25)) for i in range(3))
        elif f.name == 'label': kw['label'] = ('lab', '', None)[int(V.get('label_kind', 0))]
        elif f.name == 'units': kw['units'] = ('mrad', '', None)[int(V.get('units_kind', 0))]
        elif f.name.startswith('_') and isinstance(f.default, bool): kw[f.name] = bool(V.get(f.name, not f.default))
    a = cls(**kw)
    d = AX.axis_to_dict(a)
    b = AX.axis_from_dict(json.loads(json.dumps(d)) if False else d)
    if type(b) is not cls or any(getattr(a, f.name) != getattr(b, f.name) for f in dataclasses.fields(cls)) or not (a == b):
        bad, why = True, f"{NAME}: {a} -> {d} -> {b}"
""", NAME=name)


def _vals(c, n, pairs=False):
    if pairs:
        return tuple((c.real(f"v{i}x"), c.real(f"v{i}y")) for i in range(n))
    return tuple(c.real(f"v{i}") for i in range(n))


def _getitem(n, kind, pairs=False):
    rp = R_GI(n, kind)

    def fn(c):
        vals = _vals(c, n, pairs)
        cls = AX.TiltAxis if pairs else AX.OrdinalAxis
        ax = cls(label="p", units="mrad", values=vals, _ensemble_mean=bool(c.bool("_ensemble_mean")))
        if kind == "int":
            i = c.int("i", -n, n - 1)
            item = i
            want = (vals[int(i)],)
        elif kind == "slice":
            R = 7
            a = c.int("start", -R, R); b = c.int("stop", -R, R); s = c.int("step", -3, 3)
            c.assume(s != 0)
            sl = slice(int(a), int(b), int(s))
            item = sl
            want = vals[sl]
        elif kind == "slice_open":
            b = c.int("stop", -n - 1, n + 1)
            which = c.int("which", 0, 2)
            w = int(which)
            sl = (slice(None, int(b)), slice(int(b), None), slice(None, None, -1))[w]
            item = sl
            want = vals[sl]
        elif kind == "index_array":
            idx = [c.int(f"i{k}", -n, n - 1) for k in range(3)]
            ii = [int(x) for x in idx]
            item = np.array(ii)
            want = tuple(vals[k] for k in ii)
        elif kind == "index_list":
            idx = [c.int(f"i{k}", 0, n - 1) for k in range(2)]
            ii = [int(x) for x in idx]
            item = ii
            want = tuple(vals[k] for k in ii)
        else:  # mask
            m = [bool(c.bool(f"m{k}")) for k in range(n)]
            item = np.array(m) if kind == "mask" else list(m)
            want = tuple(v for v, keep in zip(vals, m) if keep)
        try:
            sub = ax[item]
        except (IndexError, TypeError, ValueError) as ex:
            c.prove("getitem.no_exception_for_valid_index", False, replay=rp, info=repr(ex))
            return
        got = sub.values
        c.prove("getitem.values_are_the_selected_values", _same_field(tuple(got), tuple(want)), replay=rp)
        c.prove("getitem.other_fields_carried", zand(type(sub) is cls, sub.label == "p", sub.units == "mrad", sub._ensemble_mean == ax._ensemble_mean), replay=rp)
        if n > 1 and kind in ("int", "mask"):
            c.canary("getitem.canary_first", _same_field(tuple(got), (vals[0],)))
    return fn


def R_GI(n, kind):
    return make("""
    import abtem.core.axes as AX
    vals = tuple(float(V.get(f'v{i}', i + 0.5)) for i in range(N)) if 'v0' in V or 'v0x' not in V else tuple((float(V[f'v{i}x']), float(V[f'v{i}y'])) for i in range(N))
    cls = AX.OrdinalAxis if 'v0x' not in V else AX.TiltAxis
    ax = cls(label='p', units='mrad', values=vals)
    if KIND == 'int': item = int(V['i']); want = (vals[item],)
    elif KIND == 'slice': item = slice(int(V['start']), int(V['stop']), int(V['step'])); want = vals[item]
    elif KIND == 'slice_open': b = int(V['stop']); item = (slice(None, b), slice(b, None), slice(None, None, -1))[int(V['which'])]; want = vals[item]
    elif KIND == 'index_array': ii = [int(V[f'i{k}']) for k in range(3)]; item = np.array(ii); want = tuple(vals[k] for k in ii)
    elif KIND == 'index_list': ii = [int(V[f'i{k}']) for k in range(2)]; item = ii; want = tuple(vals[k] for k in ii)
    else:
        m = [bool(V[f'm{k}']) for k in range(N)]; item = np.array(m) if KIND == 'mask' else list(m); want = tuple(v for v, keep in zip(vals, m) if keep)
    try:
        got = tuple(ax[item].values)
        if got != tuple(want): bad, why = True, f"axis[{item!r}].values = {got}, expected {want}"
    except Exception as ex:
        bad, why = True, f"axis[{item!r}] raised {ex!r}"
""", N=n, KIND=kind)


def _concat(n, m):
    def fn(c):
        a = AX.OrdinalAxis(label="p", units="mrad", values=tuple(c.real(f"a{i}") for i in range(n)))
        b = AX.OrdinalAxis(label="p", units="mrad", values=tuple(c.real(f"b{i}") for i in range(m)))
        cat = a.concatenate(b)
        c.prove("concatenate.values_are_concatenated", _same_field(cat.values, a.values + b.values), replay=None)
        c.prove("concatenate.len", len(cat) == n + m and cat.label == "p", replay=None)
        other = AX.OrdinalAxis(label="q", units="mrad", values=b.values)
        try:
            a.concatenate(other)
            c.prove("concatenate.refuses_different_axes", False, replay=None)
        except RuntimeError:
            c.prove("concatenate.refuses_different_axes", True, replay=None)
    return fn


def _linear(N):
    def fn(c):
        off = c.real("offset"); s = c.real("sampling")
        n = c.int("n", 1, N)
        for cls in (AX.LinearAxis, AX.RealSpaceAxis, AX.ReciprocalSpaceAxis, AX.ScanAxis):
            ax = cls(label="x", units="Å", offset=off, sampling=s)
            co = ax.coordinates(n)
            k = len(co)
            c.prove("linear.coordinates_are_offset_plus_i_sampling", zand(k == _z(n), *[sx.zclose(co[i], SNum(_z(off) + i * _z(s)), rtol=1e-12, atol=1e-300) for i in range(k)]),
                    replay=R_LIN, info=cls.__name__)
            o = ax.to_ordinal_axis(n)
            c.prove("linear.to_ordinal_axis_lists_coordinates", _same_field(tuple(o.values), tuple(co)), replay=R_LIN)
        c.output("last", co[-1])
        c.canary("linear.canary", _z(co[-1]) == _z(off))
    return fn


R_LIN = make("""
    import abtem.core.axes as AX
    off, s, n = float(V['offset']), float(V['sampling']), int(V['n'])
    for cls in (AX.LinearAxis, AX.RealSpaceAxis, AX.ReciprocalSpaceAxis, AX.ScanAxis):
        co = np.asarray(cls(label='x', units='Å', offset=off, sampling=s).coordinates(n))
        if len(co) != n or np.abs(co - (off + np.arange(n) * s)).max() > 1e-9 * max(abs(off), abs(s) * n, 1e-300): bad, why = True, f"{cls.__name__}.coordinates({n}) = {co}"
""")


def _lconc(v):
    return {"last": float(AX.LinearAxis(offset=v["offset"], sampling=v["sampling"]).coordinates(int(v["n"]))[-1])}


def cases(tier):
    q = tier == "quick"
    out = [Case(f"roundtrip.{cls.__name__}", _roundtrip(cls), setup=_setup, max_paths=200) for cls in _axis_classes()]
    N = 5 if q else 7
    for kind in ("int", "slice", "slice_open", "index_array", "index_list", "mask", "mask_list"):
        for n in ((1, 3, N) if kind != "slice" else (3, N)):
            out.append(Case(f"getitem.{kind}.n{n}", _getitem(n, kind), setup=_setup, max_paths=20000, budget_s=240 if q else 1500))
    out.append(Case("getitem.pairs.mask", _getitem(3, "mask", pairs=True), setup=_setup))
    out.append(Case("getitem.pairs.slice", _getitem(3, "slice", pairs=True), setup=_setup, max_paths=20000))
    for n, m in ((1, 1), (2, 3)):
        out.append(Case(f"concatenate.{n}.{m}", _concat(n, m), setup=_setup))
    out.append(Case("linear.coordinates", _linear(8 if q else 12), setup=_setup, concrete=_lconc, vectors=[{"offset": -1.5, "sampling": 0.25, "n": 5}]))
    return out
