"""C02 A frozen-phonon ensemble equals independent per-configuration simulations (bookkeeping under uninterpreted step/detect; seeds by partition)."""
import itertools

import numpy as np
import z3

from engine import sx, patch
from engine.run import Case
from engine.replay import make
from engine.sx import Tok, zand, _z
from harness import ms_common as M

PROPERTY = "C02"
BOUNDS = {
    "quick": "configurations 1..3 (ensemble axis of type FrozenPhononsAxis, NonLinearAxis or OrdinalAxis), slices 1..3, every exit-plane subset (incl. entrance plane), 1-2 detectors; incident wave, every slice and the "
             "multislice step / detectors are uninterpreted, so a pass holds for all waves, potentials and propagators; FrozenPhonons partition: configs <= 4, every chunking, symbolic seeds",
    "thorough": "configurations 1..4, slices 1..5, FrozenPhonons partition configs <= 6",
}
OUTSIDE = ["numerical values of a multislice step (stubbed)", "ensemble_mean reduction is checked only as the arithmetic mean over the configuration axis of the stored terms",
           "PRISM S-matrix builds", "displacement statistics"]
STUBS = ["conventional_multislice_step -> step(wave, slice_id), mutating the wave in place", "detector.detect -> det_d(wave)",
         "allocate_multislice_measurements -> same arrays with object dtype", "numpy RNG -> uninterpreted draw(seed) (seed partition case)"]
ASSUMPTIONS = ["a multislice step depends only on the incoming wave and the slice (what conventional_multislice_step receives)"]

import abtem.multislice as MS


def _subsets(n):
    idx = list(range(-1, n - 1))
    for r in range(0, len(idx) + 1):
        for sub in itertools.combinations(idx, r):
            yield tuple(sub) + (n - 1,)


def _ms(ncfg, nsl, ndet, axis="phonons"):
    def fn(c):
        for planes in _subsets(nsl):
            pot = M.make_potential(ncfg, nsl, planes, axis=axis)
            dets = [M.TagDetector(k) for k in range(ndet)]
            out = MS.multislice_and_detect(M.make_waves(), pot, dets)
            rp = R_MS(ncfg, nsl, planes, axis)
            ok = [len(out) == ndet]
            for d, m in enumerate(out):
                a = m.array
                want_shape = ((ncfg,) + ((len(planes),) if len(planes) > 1 else ()) + (1, 1))
                ok.append(a.shape == want_shape)
                if a.shape != want_shape:
                    continue
                for k in range(ncfg):
                    for j, p in enumerate(planes):
                        got = a[(k,) + ((j,) if len(planes) > 1 else ()) + (0, 0)]
                        ok.append(M.tok(got) == M.DET(z3.IntVal(d), M.spec_wave(k, p)) if isinstance(got, Tok) else z3.BoolVal(False))
            c.prove("ensemble.member_k_plane_j_is_independent_run_from_incident_wave", zand(*ok), replay=rp, info=str(planes))
        c.canary("canary.chained_configurations", z3.BoolVal(ncfg == 1) if False else M.spec_wave(0, 0) == M.W0)
    return fn


def R_MS(ncfg, nsl, planes, axis="phonons"):
    return make("""
    import abtem
    from abtem.core.axes import FrozenPhononsAxis, NonLinearAxis, OrdinalAxis
    from abtem.potentials.iam import PotentialArray
    rng = np.random.default_rng(0)
    arr = (rng.random((NCFG, NSL, 8, 8)) * 30).astype(np.float32)
    ax = FrozenPhononsAxis() if AXIS == 'phonons' else NonLinearAxis(label='T', values=tuple(float(i) for i in range(NCFG))) if AXIS == 'nonlinear' else OrdinalAxis(label='cfg', values=tuple(range(NCFG)))
    pot = PotentialArray(arr, slice_thickness=1.0, sampling=0.2, exit_planes=PLANES, ensemble_axes_metadata=[ax])
    w = abtem.PlaneWave(energy=80e3)
    full = w.multislice(pot, lazy=False).array
    full = full.reshape((NCFG, len(PLANES)) + full.shape[-2:])
    for k in range(NCFG):
        single = PotentialArray(arr[k], slice_thickness=1.0, sampling=0.2, exit_planes=PLANES)
        ref = w.multislice(single, lazy=False).array.reshape((len(PLANES),) + full.shape[-2:])
        err = np.abs(full[k] - ref).max()
        if err > 1e-5: bad, why = True, f"configuration {k}: ensemble result differs from the independent single-configuration run by {err}"
""", NCFG=ncfg, NSL=nsl, PLANES=planes, AXIS=axis)


# ---- configurations are determined by seeds alone, whatever the chunking ------------------------------------
def _compositions(n):
    for k in range(1, n + 1):
        for cuts in itertools.combinations(range(1, n), k - 1):
            b = (0,) + cuts + (n,)
            yield tuple(b[i + 1] - b[i] for i in range(k))


def _seeds(n):
    import ase
    import abtem.inelastic.phonons as PH

    def fn(c):
        seeds = tuple(c.int(f"seed{i}", 0, 2**31) for i in range(n))
        atoms = ase.Atoms("C", positions=[(0, 0, 0)], cell=(2, 2, 2))
        fp = PH.FrozenPhonons.__new__(PH.FrozenPhonons)
        ref = PH.FrozenPhonons(atoms, num_configs=n, sigmas=0.1, seed=tuple(range(n)))
        fp.__dict__.update(ref.__dict__)
        fp._seed = seeds
        rp = R_SEEDS(n)
        for chunks in _compositions(n):
            args = fp._partition_args(chunks=(chunks,), lazy=False)
            blocks = args[0]
            got = []
            sizes = []
            for b in blocks:
                sub = fp._from_partitioned_args()(b) if not isinstance(b, PH.FrozenPhonons) else b
                sub = sub.item() if hasattr(sub, "item") and not isinstance(sub, PH.FrozenPhonons) else sub
                sizes.append(len(sub.seed) if hasattr(sub.seed, "__len__") else 1)
                got += list(sub.seed) if hasattr(sub.seed, "__len__") else [sub.seed]
            c.prove("seeds.blocks_carry_their_own_seeds_in_order", zand(len(got) == n, tuple(sizes) == chunks,
                                                                       *[_z(a) == _z(b) for a, b in zip(got, seeds)]), replay=rp, info=str(chunks))
        if n > 1:
            c.canary("seeds.canary", _z(seeds[0]) == _z(seeds[1]))
    return fn


def R_SEEDS(n):
    return make("""
    import ase, abtem, itertools
    seeds = tuple(int(V[f'seed{i}']) for i in range(N))
    atoms = ase.Atoms('C2', positions=[(0, 0, 0), (1, 1, 1)], cell=(2, 2, 2))
    fp = abtem.FrozenPhonons(atoms, num_configs=N, sigmas=0.1, seed=seeds)
    ref = [fp_i.positions.copy() for fp_i in [abtem.FrozenPhonons(atoms, num_configs=1, sigmas=0.1, seed=(s,)).randomize(atoms) if False else None for s in seeds]] if False else None
    whole = [a.positions.copy() for a in fp]
    def comps(n):
        for k in range(1, n + 1):
            for cuts in itertools.combinations(range(1, n), k - 1):
                b = (0,) + cuts + (n,)
                yield tuple(b[i + 1] - b[i] for i in range(k))
    for chunks in comps(N):
        blocks = fp._partition_args(chunks=(chunks,), lazy=False)[0]
        got = []
        for b in blocks:
            sub = fp._from_partitioned_args()(b)
            sub = sub.item() if hasattr(sub, 'item') else sub
            got += [a.positions.copy() for a in sub]
        if len(got) != N or any(np.abs(g - w).max() > 1e-12 for g, w in zip(got, whole)):
            bad, why = True, f"chunking {chunks}: configurations differ from the unpartitioned ensemble"
""", N=n)


def cases(tier):
    q = tier == "quick"
    out = []
    for ncfg in (1, 2, 3) if q else (1, 2, 3, 4):
        for nsl in (1, 2, 3) if q else (1, 2, 3, 4, 5):
            for ndet in (1, 2):
                if ndet == 2 and (ncfg, nsl) not in ((2, 2), (3, 3)):
                    continue
                out.append(Case(f"multislice.cfg{ncfg}.sl{nsl}.det{ndet}", _ms(ncfg, nsl, ndet), setup=M.setup))
    for axis in ("nonlinear", "ordinal"):
        for ncfg, nsl in ((2, 2), (3, 2)):
            out.append(Case(f"multislice.{axis}_axis.cfg{ncfg}.sl{nsl}", _ms(ncfg, nsl, 1, axis), setup=M.setup))
    for n in (1, 2, 3, 4) if q else (1, 2, 3, 4, 5, 6):
        out.append(Case(f"seeds.n{n}", _seeds(n)))
    return out
