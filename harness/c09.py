"""C09 The independent-atom potential is additive and slicing conserves it (slice assignment and thickness bookkeeping)."""
import numpy as np
import z3

from engine import sx, patch, snp
from engine.run import Case
from engine.replay import make
from engine.sx import SNum, zand, _z, _real
from harness import c08 as H8

PROPERTY = "C09"
BOUNDS = {
    "quick": "finite-projection margins: the padding and slicing margin handed on by _prepare_atoms for species sets {Li,F}, {C}, {Na,Cl} with symbolic cutoffs per species; slice thicknesses: scalar thickness with ceil(H/t) <= 5 (case-split) and explicit sequences of 1..4 symbolic thicknesses; cell height symbolic; up to 3 atoms at "
             "symbolic heights, including heights placed exactly on slice boundaries; additivity of the delta superposition over 2 atoms on every pixel pair (from the C08 harness)",
    "thorough": "up to 6 slices, 4 atoms",
}
OUTSIDE = ["ASE's wrap() of atoms into the cell", "finite-projection integrals (SlicedAtoms with padding: membership test only)",
           "explicit thickness sequences that validation accepts within its relative tolerance 1e-5 but that do not sum exactly to the height"]
STUBS = ["margin cases: integrator.cutoff(symbol) -> symbolic positive real per species; pad_atoms / SlicedAtoms -> recorders", "np.digitize -> count of bin edges <= z", "np.cumsum -> running sum", "label_to_index -> captured (the labels are the subject)", "ase.Atoms -> duck-typed object exposing positions and cell"]
ASSUMPTIONS = ["thicknesses > 0 and, for explicit sequences, sum exactly to the cell height", "0 <= z <= H - 1e-10 (what _prepare_atoms guarantees after wrapping and snapping)"]

import abtem.slicing as SL


class _Cell:
    def __init__(self, h):
        self._h = h

    def __getitem__(self, k):
        return self._h if k == (2, 2) else 0.0


class _Atoms:
    def __init__(self, z, h):
        n = len(z)
        self.positions = np.empty((n, 3), dtype=object).view(snp.SymArr)
        for i in range(n):
            self.positions[i] = (0.0, 0.0, z[i])
        self.cell = _Cell(h)

    def __len__(self):
        return len(self.positions)


def _setup():
    patch.patch(SL)
    patch.set(SL, "is_cell_orthogonal", lambda a: True)


def _validate_scalar(N):
    def fn(c):
        H = c.real("H", 0, lo_strict=True)
        t = c.real("t", 0, lo_strict=True)
        c.assume(_z(H) <= N * _z(t))
        r = SL._validate_slice_thickness(t, thickness=H)
        n = len(r)
        c.output("n", n)
        c.prove("scalar.ceil_H_over_t_equal_slices_summing_to_height", zand((n - 1) * _z(t) < _z(H), _z(H) <= n * _z(t), sum((_z(x) for x in r), z3.RealVal(0)) == _z(H),
                                                                            *[_z(x) == _z(r[0]) for x in r], *[_z(x) > 0 for x in r]), replay=R_VS)
        lim = SL.slice_limits(tuple(r))
        c.prove("limits.contiguous_from_zero_to_height", zand(_z(lim[0][0]) == 0, _z(lim[-1][1]) == _z(H), *[_z(a[1]) == _z(b[0]) for a, b in zip(lim, lim[1:])]), replay=R_VS)
        c.canary("scalar.canary", _z(r[0]) == _z(t))
    return fn


R_VS = make("""
    from abtem.slicing import _validate_slice_thickness, slice_limits
    H, t = float(V['H']), float(V['t'])
    r = _validate_slice_thickness(t, thickness=H)
    n = int(np.ceil(H / t))
    if len(r) != n or abs(sum(r) - H) > 1e-9 * H or any(abs(x - H / n) > 1e-9 * H for x in r): bad, why = True, f"_validate_slice_thickness({t}, thickness={H}) = {r}"
    lim = slice_limits(tuple(r))
    if lim[0][0] != 0 or abs(lim[-1][1] - H) > 1e-9 * H or any(a[1] != b[0] for a, b in zip(lim, lim[1:])): bad, why = True, "slice_limits"
""")


def _vsconc(v):
    return {"n": len(SL._validate_slice_thickness(v["t"], thickness=v["H"]))}


def _validate_seq(n):
    def fn(c):
        t = tuple(c.real(f"t{i}", 0, lo_strict=True) for i in range(n))
        H = c.real("H", 0, lo_strict=True)
        try:
            r = SL._validate_slice_thickness(t, thickness=H)
        except RuntimeError:
            # rejection is only legitimate when the sum is not the height
            c.prove("sequence.rejected_only_if_sum_differs_from_height", sum((_z(x) for x in t), z3.RealVal(0)) != _z(H), replay=None)
            return
        c.prove("sequence.accepted_thicknesses_kept_in_order", zand(len(r) == n, *[_z(a) == _z(b) for a, b in zip(r, t)]), replay=None)
        c.prove("sequence.accepted_sum_is_height_within_validation_tolerance", sx.zclose(SNum(sum((_z(x) for x in t), z3.RealVal(0))), H, rtol=1e-5, atol=1e-8), replay=None)
    return fn


def _assign(nsl, natoms, boundary=False):
    rp = R_A(nsl, natoms, boundary)

    def fn(c):
        t = tuple(c.real(f"t{i}", 1e-6) for i in range(nsl))
        Hz = sum((_z(x) for x in t), z3.RealVal(0))
        if boundary:
            ks = [c.int(f"k{a}", 0, nsl - 1) for a in range(natoms)]
            z = []
            for a in range(natoms):
                k = int(ks[a])
                z.append(SNum(sum((_z(x) for x in t[:k]), z3.RealVal(0))))
        else:
            z = [c.real(f"z{a}", 0) for a in range(natoms)]
            for a in range(natoms):
                c.assume(_z(z[a]) <= Hz - _z(1e-10))
        captured = {}
        patch.set(SL, "label_to_index", lambda labels, max_label=None, **k: captured.update(labels=labels, max_label=max_label) or [])
        sa = SL.SliceIndexedAtoms(_Atoms(z, SNum(Hz)), t)
        labels = captured["labels"]
        lim = sa.slice_limits
        ok = [len(labels) == natoms, captured["max_label"] == nsl - 1]
        for a in range(natoms):
            L = _z(labels[a])
            ok.append(zand(L >= 0, L <= nsl - 1))
            for k in range(nsl):
                lo, hi = _z(lim[k][0]), _z(lim[k][1])
                # the slice an atom is assigned to contains it (boundaries go to the upper slice; 1e-12 nudge of the code allowed)
                ok.append(z3.Implies(L == k, zand(_z(z[a]) >= lo - _z(1e-12), _z(z[a]) < hi)))
            if boundary:
                ok.append(L == int(ks[a]))
        c.prove("assign.every_atom_in_exactly_one_slice_that_contains_it" + ("_boundary_atoms_go_up" if boundary else ""), zand(*ok), replay=rp)
        if nsl > 1:
            c.canary("assign.canary_all_in_first", zand(*[_z(labels[a]) == 0 for a in range(natoms)]))
    return fn


def R_A(nsl, natoms, boundary):
    return make("""
    import ase, abtem
    from abtem.slicing import SliceIndexedAtoms
    t = tuple(float(V[f't{i}']) for i in range(NSL)); H = sum(t)
    if BOUNDARY: z = [sum(t[:int(V[f'k{a}'])]) for a in range(NA)]
    else: z = [min(float(V[f'z{a}']), H - 1e-10) for a in range(NA)]
    atoms = ase.Atoms('C' * NA, positions=[(0.5, 0.5, zz) for zz in z], cell=(2, 2, H))
    sa = SliceIndexedAtoms(atoms, t)
    counts = [len(sa.get_atoms_in_slices(k)) for k in range(NSL)]
    if sum(counts) != NA: bad, why = True, f"{NA} atoms at z={z} with thicknesses {t}: slices hold {counts}"
    edges = np.concatenate([[0.0], np.cumsum(t)])
    for a, zz in enumerate(z):
        k = int(np.searchsorted(edges, zz + 1e-11, side='right') - 1)
        k = min(k, NSL - 1)
        inside = [i for i in range(NSL) if np.any(np.abs(sa.get_atoms_in_slices(i).positions[:, 2] + edges[i] - zz) < 1e-9)]
        if k not in inside: bad, why = True, f"atom at z={zz} (slice {k} by position) found in slices {inside}"
""", NSL=nsl, NA=natoms, BOUNDARY=boundary)


def _margins(symbols):
    """finite projection: the padding / slicing margin covers the cutoff of EVERY species present (an atom contributes to all slices
    within its cutoff, so a smaller margin drops part of its potential from the slices)"""
    rp = R_MARG(symbols)

    def fn(c):
        import ase
        import abtem
        import abtem.potentials.iam as IAM
        uniq = sorted(set(symbols))
        cut = {sym: c.real(f"cut_{sym}", 0, lo_strict=True) for sym in uniq}
        atoms = ase.Atoms(symbols, positions=[(0.5 + i, 0.5, 0.5 + 0.7 * i) for i in range(len(symbols))], cell=(4.0, 4.0, 4.0))
        pot = abtem.Potential(atoms, sampling=0.5, projection="finite", slice_thickness=1.0)
        rec = {}

        class Integ:
            finite = True
            periodic = pot.integrator.periodic

            @staticmethod
            def cutoff(sym):
                return cut[sym]

        def pad(a, margins=None, **k):
            rec.setdefault("pad", []).append(margins)
            return a

        class Sliced:
            def __init__(self, atoms=None, slice_thickness=None, z_padding=None, **k):
                rec.setdefault("zpad", []).append(z_padding)

        pot._integrator = Integ
        patch.set(IAM, "pad_atoms", pad)
        patch.set(IAM, "SlicedAtoms", Sliced)
        pot._prepare_atoms()
        got = rec.get("pad", []) + rec.get("zpad", [])
        ok = [len(rec.get("zpad", [])) == 1]
        for m in got:
            ok.append(zand(*[_z(m) >= _z(cut[sym]) for sym in uniq]))
            ok.append(sx.zor(*[_z(m) == _z(cut[sym]) for sym in uniq]))
        c.prove("finite_projection.margin_covers_the_largest_cutoff_of_the_species_present", zand(*ok), replay=rp)
        if len(uniq) > 1:
            c.canary("finite_projection.canary_sum_of_cutoffs", zand(*[_z(m) == sum((_z(cut[sym]) for sym in uniq), z3.RealVal(0)) for m in got]) if got else z3.BoolVal(False))
    return fn


def R_MARG(symbols):
    return make("""
    import ase, abtem
    import abtem.potentials.iam as IAM
    from ase.data import chemical_symbols
    atoms = ase.Atoms(SYMBOLS, positions=[(0.5 + i, 0.5, 0.5 + 0.7 * i) for i in range(len(SYMBOLS))], cell=(4.0, 4.0, 4.0))
    pot = abtem.Potential(atoms, sampling=0.5, projection='finite', slice_thickness=1.0)
    want = max(pot.integrator.cutoff(s) for s in set(SYMBOLS))
    seen = []
    real = IAM.SlicedAtoms
    class Spy(real):
        def __init__(self, *a, z_padding=None, **k):
            seen.append(z_padding); super().__init__(*a, z_padding=z_padding, **k)
    IAM.SlicedAtoms = Spy
    try:
        pot._prepare_atoms()
    finally:
        IAM.SlicedAtoms = real
    if not seen or abs(seen[0] - want) > 1e-9: bad, why = True, f"species {sorted(set(SYMBOLS))}: slicing margin {seen} but the largest cutoff is {want}"
""", SYMBOLS=list(symbols))


def cases(tier):
    q = tier == "quick"
    out = [Case("validate.scalar", _validate_scalar(5 if q else 8), setup=_setup, concrete=_vsconc, vectors=[{"H": 4.08, "t": 1.0}, {"H": 6.0, "t": 2.0}], max_paths=400)]
    for n in (1, 2, 4) if q else (1, 2, 4, 6):
        out.append(Case(f"validate.sequence.n{n}", _validate_seq(n), setup=_setup))
    for nsl, na in ((1, 1), (2, 2), (3, 3), (4, 2)) if q else ((1, 1), (2, 2), (3, 3), (4, 2), (6, 3), (5, 4)):
        out.append(Case(f"assign.sl{nsl}.atoms{na}", _assign(nsl, na), setup=_setup, max_paths=5000))
        out.append(Case(f"assign.boundary.sl{nsl}.atoms{na}", _assign(nsl, na, boundary=True), setup=_setup, max_paths=5000))
    for shape in ((2, 3), (3, 2)):
        out.append(Case(f"additive.deltas.{shape[0]}x{shape[1]}", H8._deltas(shape, 2), setup=H8._setup, max_paths=20000, budget_s=300 if q else 1800))
    for syms in (("Li", "F"), ("C",), ("Na", "Cl", "Na")) if q else (("Li", "F"), ("C",), ("Na", "Cl", "Na"), ("Au", "Cs", "O")):
        out.append(Case("margins." + "_".join(syms), _margins(syms), setup=_setup))
    return out
