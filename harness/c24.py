"""C24 Electron energy relations match relativistic kinematics."""
import fractions

import z3
from ase import units

from engine import sx, patch
from engine.run import Case
from engine.replay import make
from engine.sx import SNum, _z, _real, zand

PROPERTY = "C24"
BOUNDS = {
    "quick": "energy symbolic real in [1, 1e7] eV (and (-1e7, 0] for rejection); reciprocal samplings symbolic reals; no loops",
    "thorough": "same (the functions are loop-free; the claim covers every real energy in the range)",
}
OUTSIDE = ["float round-off (reals stand for doubles; constants enter as the exact rationals of ase.units' doubles)"]
STUBS = ["np.sqrt -> r >= 0 with r*r = x (exact)", "np.pi -> real constant PI in [3.141592653589793, 3.141592653589794]"]
ASSUMPTIONS = ["CODATA constants are those of ase.units (reused by the specification, as the property is about the formula)"]

import abtem.core.energy as E

Q = lambda x: z3.RealVal(fractions.Fraction(float(x)))
H, C0, ME, EC = Q(units._hplanck), Q(units._c), Q(units._me), Q(units._e)


def _setup():
    patch.patch(E)


def _wavelength(c):
    en = c.real("energy", 1, 1e7)
    c.pc += sx.pi_axioms()
    lam = E.energy2wavelength(en)
    c.output("lam", lam)
    e = _z(en)
    rest = 2 * ME * C0 * C0 / EC
    c.prove("wavelength.positive", _z(lam) > 0, replay=R_W)
    # lambda^2 * E (E + 2 m c^2 / e) == (h c / e * 1e10)^2
    lhs = _z(lam) * _z(lam) * e * (e + rest)
    rhs = (H * C0 / EC * Q(1.0e10)) * (H * C0 / EC * Q(1.0e10))
    c.prove("wavelength.formula", sx.zclose(SNum(lhs), SNum(rhs), rtol=1e-12), replay=R_W)
    c.canary("wavelength.canary_nonrelativistic", sx.zclose(SNum(_z(lam) * _z(lam) * e * rest), SNum(rhs), rtol=1e-3))
    m = E.energy2mass(en)
    g = E.relativistic_mass_correction(en)
    c.prove("mass.gamma", sx.zclose(SNum(_z(g) * ME * C0 * C0), SNum(ME * C0 * C0 + EC * e), rtol=1e-12), replay=R_W)
    c.prove("mass.relativistic", sx.zclose(m, SNum(_z(g) * ME), rtol=1e-12), replay=R_W)
    sig = E.energy2sigma(en)
    c.output("sigma", sig)
    c.prove("sigma.positive", _z(sig) > 0, replay=R_W)
    # sigma = 2 pi m_rel e lambda / h^2 in the code's unit system (ase: kg, C, s, J factors)
    k = Q(units.kg) * Q(units.C) / ((Q(units.s) * Q(units.J)) * (Q(units.s) * Q(units.J)))
    c.prove("sigma.formula", sx.zclose(SNum(_z(sig) * H * H), SNum(2 * sx.PI * _z(g) * ME * EC * _z(lam) * k), rtol=1e-12), replay=R_W)
    rs = c.real("rs", 0, 100)
    a = E.reciprocal_space_sampling_to_angular_sampling((rs, 2 * rs), en)
    c.prove("angular_sampling", zand(sx.zclose(a[0], SNum(_z(rs) * _z(lam) * 1000), rtol=1e-12),
                                     sx.zclose(a[1], SNum(2 * _z(rs) * _z(lam) * 1000), rtol=1e-12), len(a) == 2), replay=R_W)


R_W = make("""
    from abtem.core.energy import energy2wavelength, energy2sigma, energy2mass, relativistic_mass_correction, reciprocal_space_sampling_to_angular_sampling
    from ase import units as u
    e = float(V['energy']); rs = float(V.get('rs', 0.1))
    lam = energy2wavelength(e); sig = energy2sigma(e)
    ref = u._hplanck * u._c / np.sqrt(e * (e + 2 * u._me * u._c**2 / u._e)) / u._e * 1e10
    g = 1 + u._e * e / (u._me * u._c**2)
    sref = 2 * np.pi * g * u._me * u.kg * u._e * u.C * ref / (u._hplanck * u.s * u.J) ** 2
    a = reciprocal_space_sampling_to_angular_sampling((rs, 2 * rs), e)
    if not (lam > 0 and abs(lam - ref) <= 1e-9 * ref): bad, why = True, f"wavelength({e}) = {lam}, expected {ref}"
    if not (sig > 0 and abs(sig - sref) <= 1e-9 * sref): bad, why = True, f"sigma({e}) = {sig}, expected {sref}"
    if abs(relativistic_mass_correction(e) - g) > 1e-9 * g or abs(energy2mass(e) - g * u._me) > 1e-9 * g * u._me: bad, why = True, "mass"
    if len(a) != 2 or abs(a[0] - rs * ref * 1e3) > 1e-9 * abs(rs * ref * 1e3) + 1e-300 or abs(a[1] - 2 * rs * ref * 1e3) > 1e-9 * abs(2 * rs * ref * 1e3) + 1e-300: bad, why = True, f"angular sampling {a}"
""")


def _conc(v):
    return {"lam": E.energy2wavelength(v["energy"]), "sigma": E.energy2sigma(v["energy"])}


def _monotone(c):
    e1 = c.real("e1", 1, 1e7)
    e2 = c.real("e2", 1, 1e7)
    c.assume(e1 < e2)
    l1 = E.energy2wavelength(e1)
    l2 = E.energy2wavelength(e2)
    c.prove("wavelength.strictly_decreasing", _z(l1) > _z(l2), replay=R_M)
    c.canary("wavelength.canary_gap", _z(l1) > _z(l2) + Q(1e-3))


R_M = make("""
    from abtem.core.energy import energy2wavelength
    e1, e2 = float(V['e1']), float(V['e2'])
    if e1 < e2 and not energy2wavelength(e1) > energy2wavelength(e2): bad, why = True, f"not decreasing at {e1} < {e2}"
""")


def _reject(c):
    en = c.real("energy", -1e7, 0)
    for name, f in (("wavelength", E.energy2wavelength), ("sigma", E.energy2sigma),
                    ("angular", lambda x: E.reciprocal_space_sampling_to_angular_sampling((0.1,), x))):
        try:
            f(en)
        except ValueError:
            c.prove(f"reject.{name}.valueerror_only_nonpositive", _z(en) <= 0, replay=R_R)
            continue
        c.prove(f"reject.{name}.nonpositive_rejected", False, replay=R_R)
    acc = E.Accelerator(energy=en)
    try:
        acc.wavelength
        c.prove("reject.accelerator", False, replay=R_R)
    except ValueError:
        c.prove("reject.accelerator", True, replay=R_R)


R_R = make("""
    from abtem.core.energy import energy2wavelength, energy2sigma, reciprocal_space_sampling_to_angular_sampling, Accelerator
    e = float(V['energy'])
    for f in (energy2wavelength, energy2sigma, lambda x: reciprocal_space_sampling_to_angular_sampling((0.1,), x), lambda x: Accelerator(energy=x).wavelength):
        try:
            r = f(e)
            if e <= 0: bad, why = True, f"non-positive energy {e} accepted -> {r}"
        except ValueError:
            if e > 0: bad, why = True, f"positive energy {e} rejected"
""")


def _accept(c):
    en = c.real("energy", 0, 1e7, lo_strict=True)
    try:
        E.energy2wavelength(en)
        E.energy2sigma(en)
    except ValueError:
        c.prove("accept.positive_energy_not_rejected", False, replay=R_R)
        return
    c.prove("accept.positive_energy_not_rejected", True, replay=R_R)


def cases(tier):
    return [
        Case("wavelength_sigma", _wavelength, setup=_setup, concrete=_conc, tol=1e-9,
             vectors=[{"energy": 100e3, "rs": 0.05}, {"energy": 300e3, "rs": 0.1}, {"energy": 1.0, "rs": 1.0}]),
        Case("monotone", _monotone, setup=_setup),
        Case("reject_nonpositive", _reject, setup=_setup),
        Case("accept_positive", _accept, setup=_setup),
    ]
