"""Shared EUF model for the multislice bookkeeping harnesses (C01, C02, C07).

The REAL multislice_and_detect runs on a real Waves whose 1x1 array holds a token of an uninterpreted
sort, through a real PotentialArray whose tiny concrete slices carry their identity (10*config + slice).
Stubs: one multislice step -> step(wave, slice_id) (in place, as propagate(in_place=True));
detector d -> det_d(wave); measurement allocation -> object dtype.
"""
import numpy as np
import z3

from engine import sx, patch
from engine.sx import Tok

import abtem.multislice as MS
from abtem.core.axes import FrozenPhononsAxis
from abtem.potentials.iam import PotentialArray
from abtem.waves import Waves
from abtem.detectors import WavesDetector

W = z3.DeclareSort("Wave")
STEP = z3.Function("step", W, z3.IntSort(), W)
DET = z3.Function("det", z3.IntSort(), W, W)
W0 = z3.Const("w0", W)


class TagDetector(WavesDetector):
    """detect(waves) = det_k(waves) elementwise on tokens"""

    def __init__(self, k):
        super().__init__()
        self._k = k

    def detect(self, waves):
        out = waves.copy()
        a = np.empty(waves._array.shape, dtype=object)
        for idx in np.ndindex(a.shape):
            a[idx] = Tok(DET(z3.IntVal(self._k), waves._array[idx].e))
        out._array = a
        return out


def stub_step(waves, potential_slice, **kw):
    sid = int(round(float(np.asarray(potential_slice.array).ravel()[0].real)))
    a = waves._array
    for idx in np.ndindex(a.shape):
        a[idx] = Tok(STEP(a[idx].e, z3.IntVal(sid)))
    return waves


def setup():
    real_alloc = MS.allocate_multislice_measurements

    def stub_alloc(waves, detectors, shape, md):
        out = real_alloc(waves, detectors, shape, md)
        for m in out:
            m._array = np.zeros(m._array.shape, dtype=object)
        return out

    patch.set(MS, "conventional_multislice_step", stub_step)
    patch.set(MS, "allocate_multislice_measurements", stub_alloc)


def make_potential(ncfg, nsl, exit_planes, thick=None, ensemble=True, offset=0, axis="phonons"):
    arr = np.zeros(((ncfg,) if ensemble else ()) + (nsl, 1, 1), dtype=np.float32)
    for k in range(ncfg if ensemble else 1):
        for i in range(nsl):
            if ensemble:
                arr[k, i] = 10 * (k + offset) + i
            else:
                arr[i] = 10 * offset + i
    return PotentialArray(arr, slice_thickness=thick if thick is not None else 1.0, sampling=1.0, exit_planes=exit_planes,
                          ensemble_axes_metadata=[_axis(axis, ncfg)] if ensemble else [])


def _axis(kind, n):
    from abtem.core.axes import NonLinearAxis, OrdinalAxis
    if kind == "phonons":
        return FrozenPhononsAxis()
    if kind == "nonlinear":
        return NonLinearAxis(label="T", values=tuple(float(i) for i in range(n)))
    return OrdinalAxis(label="cfg", values=tuple(range(n)))


def make_waves():
    wa = np.empty((1, 1), dtype=object)
    wa[0, 0] = Tok(W0)
    return Waves(wa, energy=100e3, sampling=1.0)


def spec_wave(cfg, upto):
    """step^{upto+1}(w0) through the slices of configuration cfg"""
    e = W0
    for i in range(upto + 1):
        e = STEP(e, z3.IntVal(10 * cfg + i))
    return e


def tok(x):
    return x.e if isinstance(x, Tok) else x
