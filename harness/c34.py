"""C34 Temporary configuration changes are always undone (CrossHair on the real config.set)."""
import os

from engine.run import Case
from engine import ch

PROPERTY = "C34"
ENGINE = "CH"
LEVEL = "model_checking"
TECHNIQUE = "CrossHair symbolic execution (z3) of PEP-316 contracts over the real config.set; counterexample replay"
EXPLANATION = ("CrossHair explores the paths of each contract symbolically; 'Confirmed over all paths' counts as discharged, 'Not confirmed' as inconclusive; "
               "states = contracts run, transitions = CrossHair invocations (CrossHair does not expose path/query counts)")
BOUNDS = {
    "quick": "keys of length <= 3 over the alphabet {a . _} (inner key of a nesting: length <= 2 over {a .}), one pre-existing entry whose name is one character of {a _ -} "
             "(so hyphen/underscore aliases occur) holding nothing, a leaf or a nested dict; one context, one context left through an exception, two nested contexts with and without exception, keyword form",
    "thorough": "same contracts with 4x the per-condition time budget",
}
OUTSIDE = ["keys over a wider alphabet or longer than 3 characters (CrossHair does not finish)", "deprecated-key renaming (empty table)", "thread interleavings"]
STUBS = []
ASSUMPTIONS = ["values are ints (the value is opaque to config.set)"]

PATH = os.path.join(os.path.dirname(os.path.abspath(__file__)), "ch", "c34_props.py")


def _mk(func, t, expect="confirmed"):
    return lambda tier, seed: ch.run_contract(PATH, func, t if tier == "quick" else 4 * t, expect=expect, pid=PROPERTY)


def cases(tier):
    return [
        Case("restore_one", _mk("restore_one", 60), engine="custom", budget_s=400),
        Case("restore_one_exception", _mk("restore_one_exception", 60), engine="custom", budget_s=400),
        Case("restore_nested", _mk("restore_nested", 150), engine="custom", budget_s=700),
        Case("restore_kwargs", _mk("restore_kwargs", 30), engine="custom", budget_s=200),
        Case("twin_reachable", _mk("twin_reachable", 30, expect="refuted"), engine="custom", budget_s=200),
    ]
