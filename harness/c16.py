"""C16 Measurement resampling and source-size filtering conserve what they promise (conservation algebra and filter parameters)."""
import numpy as np
import z3

from engine import sx, patch, snp
from engine.run import Case
from engine.replay import make
from engine.sx import SNum, SComplex, zand, _z, _real

PROPERTY = "C16"
BOUNDS = {
    "quick": "bilinear pattern interpolation 3x3 -> 4x4, 4x3 -> 3x5, 3x4 -> 2x2 with symbolic non-negative contents (batch of 2); Fourier image interpolation 2x2 -> 2x2, 2x2 -> 4x4, "
             "4x4 -> 2x2 (exact DFT) with symbolic contents; the public DiffractionPatterns.interpolate on 2x3x3 symbolic patterns for every documented way of naming the target grid "
             "(gpts pair, gpts scalar, sampling pair, sampling scalar, 'uniform'); source-size filter: scalar and per-axis sigma, symbolic scan samplings, 2 scan axes + optional extra ensemble axis",
    "thorough": "bilinear 5x5 -> 7x6 and 6x5 -> 4x4; Fourier 2x4 -> 4x4",
}
OUTSIDE = ["the Gaussian filter itself (scipy.ndimage C code): commutation with detector integration is the linear-filter argument; decided here: both routes hand scipy the SAME "
           "per-scan-axis sigmas in pixels and zero along every other axis", "interpolation nodes/weights for non-listed shape pairs", "lazy evaluation (map_overlap depth)"]
STUBS = ["scipy.ndimage.gaussian_filter -> records (sigma, mode) and returns its input", "fft2/ifft2 -> exact DFT (lengths 1, 2, 4)"]
ASSUMPTIONS = ["pattern contents >= 0 with non-zero total after interpolation", "sigma >= 0, scan sampling > 0"]

import abtem.measurements as MM
import abtem.core.fft as F
from abtem.core.axes import ScanAxis, OrdinalAxis


def _setup():
    patch.patch(F)
    patch.set(F, "fft2", lambda a, overwrite_x=False, **k: snp.exact_fftn(a, (-2, -1), False))
    patch.set(F, "ifft2", lambda a, overwrite_x=False, **k: snp.exact_fftn(a, (-2, -1), True))


def _bilinear(old, new):
    rp = R_B(old, new)

    def fn(c):
        A = sx.sym_array(c, "a", (2,) + tuple(old), lo=0)
        samp = (0.5, 0.7)
        new_s = (samp[0] * old[0] / new[0], samp[1] * old[1] / new[1])
        v, u, vw, uw = MM._fourier_space_bilinear_nodes_and_weight(tuple(old), tuple(new), samp, new_s, np)
        c.prove("bilinear.weights_in_0_1", bool(np.all((vw >= 0) & (vw <= 1) & (uw >= 0) & (uw <= 1))), replay=rp)
        interp = MM._interpolate_bilinear(np.asarray(A).copy(), v, u, vw, uw)
        for b in range(2):
            c.assume(sum((_z(x) for x in np.asarray(interp)[b].ravel()), z3.RealVal(0)) > 0)
        c.div_as_inv = True  # e / S becomes e * inv_S with S * inv_S == 1 (S > 0 is assumed above)
        out = MM.DiffractionPatterns._batch_interpolate_bilinear(A.copy(), new_s, samp, tuple(new))
        out = np.asarray(out, dtype=object)
        ok = [out.shape == (2,) + tuple(new)]
        for b in range(2):
            ok.append(sum((_z(x) for x in out[b].ravel()), z3.RealVal(0)) == sum((_z(x) for x in A[b].ravel()), z3.RealVal(0)))
        c.prove("bilinear.total_intensity_of_each_pattern_preserved", zand(*ok), replay=rp)
        c.canary("bilinear.canary", _z(out[0].ravel()[0]) == _z(A[0].ravel()[0]))
    return fn


def R_B(old, new):
    return make("""
    from abtem.measurements import DiffractionPatterns
    rng = np.random.default_rng(0)
    A = rng.random((2,) + tuple(OLD)).astype(np.float64) + 0.1
    if all(f'a_{i}_{j}_{k}' in V for i, j, k in np.ndindex(A.shape)):  # the solver's pattern contents
        A = np.array([[[float(V[f'a_{i}_{j}_{k}']) for k in range(A.shape[2])] for j in range(A.shape[1])] for i in range(A.shape[0])], dtype=np.float64)
    dp = DiffractionPatterns(A, sampling=(0.5, 0.7), fftshift=True, ensemble_axes_metadata=[__import__('abtem').core.axes.OrdinalAxis(values=(0, 1))], metadata={'energy': 100e3})
    out = dp.interpolate(gpts=tuple(NEW))
    t0 = A.sum((-2, -1)); t1 = np.asarray(out.array).sum((-2, -1))
    if out.shape[-2:] != tuple(NEW) or np.abs(t1 - t0).max() > 1e-5 * t0.max(): bad, why = True, f"interpolate {OLD}->{NEW}: totals {t0} -> {t1}"
""", OLD=tuple(old), NEW=tuple(new))


def _fourier(old, new):
    rp = R_F(old, new)

    def fn(c):
        A = sx.sym_array(c, "a", tuple(old))
        im = MM.Images(np.zeros(old, dtype=np.float32), sampling=(0.5, 0.25))
        im._array = A
        out = im.interpolate(gpts=tuple(new), method="fft")
        O = np.asarray(out.array, dtype=object)
        ok = [O.shape == tuple(new)]
        if tuple(new) == tuple(old):
            ok += [sx.zeq(SComplex.of(O[i]), SComplex.of(A[i])) for i in np.ndindex(tuple(old))]
            c.prove("fourier.same_grid_returns_input_unchanged", zand(*ok), replay=rp)
        mean_in = sum((SComplex.of(x) for x in A.ravel()), SComplex(0, 0)) / A.size
        mean_out = sum((SComplex.of(x) for x in O.ravel()), SComplex(0, 0)) / O.size
        c.prove("fourier.image_mean_preserved", sx.zeq(mean_out, mean_in), replay=rp)
        ext_ok = all(abs(a - b) < 1e-9 for a, b in zip(out.extent, im.extent))
        c.prove("fourier.extent_preserved", ext_ok, replay=rp)
    return fn


def R_F(old, new):
    return make("""
    from abtem.measurements import Images
    rng = np.random.default_rng(0); A = rng.random(tuple(OLD)).astype(np.float32)
    im = Images(A, sampling=(0.5, 0.25))
    out = im.interpolate(gpts=tuple(NEW), method='fft')
    O = np.asarray(out.array)
    if tuple(NEW) == tuple(OLD) and np.abs(O - A).max() > 1e-6: bad, why = True, "same grid: image changed"
    if abs(O.mean() - A.mean()) > 1e-6: bad, why = True, f"mean {A.mean()} -> {O.mean()}"
""", OLD=tuple(old), NEW=tuple(new))


FORMS = {"gpts_pair": {"gpts": (4, 4)}, "gpts_scalar": {"gpts": 4}, "sampling_pair": {"sampling": (0.375, 0.5)}, "sampling_scalar": {"sampling": 0.625},
         "uniform": {"sampling": "uniform"}}


def _public(form):
    """the public DiffractionPatterns.interpolate for every documented way of naming the target grid"""
    rp = R_P(form)

    def fn(c):
        old = (3, 3)
        samp = (0.5, 0.75)  # dyadic, so that the doubles are small exact rationals
        A = sx.sym_array(c, "a", (2,) + old, lo=0)
        dp = MM.DiffractionPatterns(np.zeros((2,) + old, np.float32), sampling=samp, fftshift=True, ensemble_axes_metadata=[OrdinalAxis(values=(0, 1))],
                                    metadata={"energy": 100e3})
        dp._array = A
        c.div_as_inv = True
        try:
            out = dp.interpolate(**FORMS[form])
        except sx.Abort:
            raise
        except Exception as ex:  # noqa: BLE001
            c.prove("interpolate.accepts_every_documented_target_grid", False, replay=rp, info=repr(ex)[:200])
            return
        c.prove("interpolate.accepts_every_documented_target_grid", True, replay=rp)
        O = np.asarray(out.array, dtype=object)
        new = O.shape[-2:]
        v, u, vw, uw = MM._fourier_space_bilinear_nodes_and_weight(old, tuple(new), samp, tuple(out.sampling), np)
        interp = MM._interpolate_bilinear(np.asarray(A).copy(), v, u, vw, uw)
        for b in range(2):
            c.assume(sum((_z(x) for x in np.asarray(interp)[b].ravel()), z3.RealVal(0)) > 0)
        ok = [O.shape[0] == 2]
        for b in range(2):
            ok.append(sum((_z(x) for x in O[b].ravel()), z3.RealVal(0)) == sum((_z(x) for x in A[b].ravel()), z3.RealVal(0)))
        c.prove("interpolate.total_intensity_of_each_pattern_preserved", zand(*ok), replay=rp)
        if form.startswith("gpts"):
            c.prove("interpolate.requested_gpts_with_the_extent_kept", zand(tuple(new) == (4, 4), *[_z(ns) * n == _z(os_) * o for ns, n, os_, o in zip(out.sampling, new, samp, old)]), replay=rp)
        c.canary("interpolate.canary", sum((_z(x) for x in O[0].ravel()), z3.RealVal(0)) == _z(A[0].ravel()[0]))
    return fn


def R_P(form):
    return make("""
    from abtem.measurements import DiffractionPatterns
    from abtem.core.axes import OrdinalAxis
    rng = np.random.default_rng(0)
    A = rng.random((2, 3, 3)).astype(np.float64) + 0.1
    if all(f'a_{i}_{j}_{k}' in V for i, j, k in np.ndindex(A.shape)):  # the solver's pattern contents
        A = np.array([[[float(V[f'a_{i}_{j}_{k}']) for k in range(3)] for j in range(3)] for i in range(2)], dtype=np.float64)
    dp = DiffractionPatterns(A, sampling=(0.5, 0.75), fftshift=True, ensemble_axes_metadata=[OrdinalAxis(values=(0, 1))], metadata={'energy': 100e3})
    try:
        out = dp.interpolate(**KW)
        t0 = A.sum((-2, -1)); t1 = np.asarray(out.array).sum((-2, -1))
        if np.abs(t1 - t0).max() > 1e-5 * t0.max(): bad, why = True, f"interpolate({KW}): totals {t0} -> {t1}"
    except Exception as ex:
        bad, why = True, f"interpolate({KW}) raises {ex!r} although this way of giving the target grid is documented"
""", KW=FORMS[form])


class _Rec:
    calls = []

    @staticmethod
    def gaussian_filter(array, sigma=None, mode=None, **k):
        _Rec.calls.append((tuple(sigma), mode))
        return array


def _source_size(extra_axis, scalar):
    rp = R_S(extra_axis, scalar)

    def fn(c):
        patch.set(MM, "get_ndimage_module", lambda *a, **k: _Rec)
        patch.set(MM, "int", sx.sint)
        patch.set(MM, "float", sx.sfloat)
        sx_, sy_ = c.real("scan_dx", 0, lo_strict=True), c.real("scan_dy", 0, lo_strict=True)
        if scalar:
            sg = c.real("sigma", 0)
            sig = (sg, sg)
        else:
            sig = (c.real("sigma_x", 0), c.real("sigma_y", 0))
            sg = sig
        axes = ([OrdinalAxis(label="p", values=(0, 1))] if extra_axis else []) + [ScanAxis(label="x", sampling=sx_), ScanAxis(label="y", sampling=sy_)]
        shape = ((2,) if extra_axis else ()) + (3, 4, 2, 2)
        dp = MM.DiffractionPatterns(np.ones(shape, dtype=np.float32), sampling=0.1, fftshift=True, ensemble_axes_metadata=axes, metadata={"energy": 100e3})
        _Rec.calls = []
        dp.gaussian_source_size(sg)
        got = _Rec.calls[-1]
        want = ((0,) if extra_axis else ()) + (_z(sig[0]) / _z(sx_), _z(sig[1]) / _z(sy_), 0, 0)
        c.prove("source_size.filters_each_scan_axis_with_sigma_over_its_scan_step_and_nothing_else",
                zand(len(got[0]) == len(want), got[1] == "wrap", *[_z(a) == (_z(b) if not z3.is_expr(b) else b) for a, b in zip(got[0], want)]), replay=rp)
        # the route 'integrate first, then Images.gaussian_filter' uses the same pixel sigmas on the scan axes
        im = MM.Images(np.ones(((2,) if extra_axis else ()) + (3, 4), dtype=np.float32), sampling=(sx_, sy_), ensemble_axes_metadata=axes[:1] if extra_axis else [])
        _Rec.calls = []
        im.gaussian_filter(sg)
        got2 = _Rec.calls[-1]
        scan_part = got[0][1:3] if extra_axis else got[0][0:2]
        c.prove("source_size.same_pixel_sigmas_as_filtering_the_integrated_image", zand(*[_z(a) == _z(b) for a, b in zip(got2[0][-2:], scan_part)], got2[1] == "wrap"), replay=rp)
        c.canary("source_size.canary_isotropic_pixels", _z(got[0][-4]) == _z(got[0][-3]))
    return fn


def R_S(extra_axis, scalar):
    return make("""
    import abtem
    from abtem.measurements import DiffractionPatterns
    from abtem.core.axes import ScanAxis
    dx, dy = float(np.clip(V['scan_dx'], 0.05, 2.0)), float(np.clip(V['scan_dy'], 0.05, 2.0))
    if abs(dx - dy) < 1e-6: dy = dx * 2
    sg = float(np.clip(V['sigma'], 0.2, 1.0)) if SCALAR else (float(np.clip(V['sigma_x'], 0.2, 1.0)), float(np.clip(V['sigma_y'], 0.2, 1.0)))
    rng = np.random.default_rng(0); A = rng.random((6, 8, 4, 4)).astype(np.float32)
    dp = DiffractionPatterns(A, sampling=0.05, fftshift=True, ensemble_axes_metadata=[ScanAxis(label='x', sampling=dx), ScanAxis(label='y', sampling=dy)], metadata={'energy': 100e3})
    a = np.asarray(dp.gaussian_source_size(sg).integrate_radial(0, 3).array)
    b = np.asarray(dp.integrate_radial(0, 3).gaussian_filter(sg).array)
    err = np.abs(a - b).max() / np.abs(b).max()
    if err > 1e-4: bad, why = True, f"source size sigma={sg}, scan steps ({dx},{dy}): filter-then-integrate differs from integrate-then-filter by {err}"
""", SCALAR=scalar)


def cases(tier):
    q = tier == "quick"
    out = []
    for old, new in (((3, 3), (4, 4)), ((4, 3), (3, 5)), ((3, 4), (2, 2))) if q else (((3, 3), (4, 4)), ((4, 3), (3, 5)), ((3, 4), (2, 2)), ((5, 5), (7, 6)), ((6, 5), (4, 4))):
        out.append(Case(f"bilinear.{old[0]}x{old[1]}.to.{new[0]}x{new[1]}", _bilinear(old, new), setup=_setup, timeout_ms=60000, budget_s=300 if q else 1500))
    for old, new in (((2, 2), (2, 2)), ((2, 2), (4, 4)), ((4, 4), (2, 2))) if q else (((2, 2), (2, 2)), ((2, 2), (4, 4)), ((4, 4), (2, 2)), ((2, 4), (4, 4))):
        out.append(Case(f"fourier.{old[0]}x{old[1]}.to.{new[0]}x{new[1]}", _fourier(old, new), setup=_setup, budget_s=300 if q else 1500))
    for form in FORMS:
        out.append(Case(f"interpolate.public.{form}", _public(form), setup=_setup, timeout_ms=60000, budget_s=300 if q else 1500))
    for extra in (False, True):
        for scalar in (True, False):
            out.append(Case(f"source_size.{'extra_axis.' if extra else ''}{'scalar' if scalar else 'per_axis'}", _source_size(extra, scalar), setup=_setup))
    return out
