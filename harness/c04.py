"""C04 Wave propagation never creates intensity and vacuum propagation is reversible (pointwise in Fourier space)."""
import numpy as np
import z3

from engine import sx, patch, snp
from engine.run import Case
from engine.replay import make
from engine.sx import SNum, Polar, zand, _z, _real

PROPERTY = "C04"
BOUNDS = {
    "quick": "grids 2x3, 3x4, 4x4; phase factors: sampling, thickness (any sign), wavelength > 0 symbolic; aperture and complete propagator: sampling (1/5,1/5) and (1/4,3/10) A as exact constants, thickness and wavelength symbolic; potential values symbolic; propagator orders 1 and 2; tilted beams: symbolic base tilt in [-100, 100] mrad per axis on 2x3 and 3x4 grids (modulus and dz / -dz reversibility)",
    "thorough": "grids up to 6x6",
}
OUTSIDE = ["FFT round-off and Parseval's theorem (intensity after a step = sum |K psi^|^2 is the stated model: it suffices that every Fourier multiplier has modulus <= 1)",
           "the real-space band-limiting of the transmission function (an FFT convolution)", "complex-valued (absorptive) potentials"]
STUBS = ["complex_exponential(x) -> unit phasor with turn count x/(2 PI)", "np.cos -> uninterpreted with cos^2+sin^2=1", "np.tan -> uninterpreted",
         "energy2wavelength / energy2sigma -> symbolic positive constants", "waves -> real Waves object over an object array"]
ASSUMPTIONS = ["sampling > 0, wavelength > 0, antialias cutoff/taper from abtem's default config"]

import abtem.multislice as MS
import abtem.antialias as AA
import abtem.core.grid as G
import abtem.core.fft as F
import abtem.potentials.iam as IAM
import abtem.core.energy as E
from abtem.waves import Waves

LAM = z3.Real("wavelength")
SIG = z3.Real("sigma")


def _setup():
    for m in (MS, AA, G, F, IAM):
        patch.patch(m)
    patch.set(G, "device_name_from_array_module", lambda xp: "cpu")
    for m in (MS, F, IAM):
        patch.set(m, "complex_exponential", snp.complex_exponential)
    patch.set(MS, "energy2wavelength", lambda e: SNum(LAM))
    patch.set(IAM, "energy2sigma", lambda e: SNum(SIG))


def mk_waves(gpts, samp, tilt=(0.0, 0.0), axes=()):
    shape = tuple(len(a.values) for a in axes) + tuple(gpts)
    arr = np.empty(shape, dtype=object)
    for i in np.ndindex(shape):
        arr[i] = sx.SComplex(1, 0)
    w = Waves.__new__(Waves)
    # construct the state directly: Waves.__init__ validates dtypes of real arrays
    w.__dict__.update(Waves(np.ones(shape, dtype=np.complex64), energy=100e3, sampling=1.0, ensemble_axes_metadata=list(axes),
                            metadata={"base_tilt_x": 0.0, "base_tilt_y": 0.0}).__dict__)
    w._array = arr
    w._grid = G.Grid(gpts=gpts, sampling=samp, lock_gpts=True)
    w._metadata = {"base_tilt_x": tilt[0], "base_tilt_y": tilt[1], "energy": 100e3}
    return w


SAMPLINGS = {"iso": ("1/5", "1/5"), "aniso": ("1/4", "3/10")}


def _phase(gpts, order):
    """pure phase factors: sampling fully symbolic"""
    rp = R_P(gpts, order)

    def fn(c):
        c.pc += sx.pi_axioms() + [LAM > 0]
        samp = (c.real("dx", 0, lo_strict=True), c.real("dy", 0, lo_strict=True))
        dz = c.real("dz")
        K = MS._fresnel_propagator_array(dz, gpts, samp, 100e3, "cpu", order=order)
        Km = MS._fresnel_propagator_array(-dz, gpts, samp, 100e3, "cpu", order=order)
        c.prove("propagator.unit_modulus", zand(*[sx.cabs2(K[i]) == 1 for i in np.ndindex(K.shape)]), replay=rp)
        for i in np.ndindex(K.shape):  # one small query per pixel (a conjunction over all pixels does not finish for order 2)
            c.prove("propagator.minus_dz_is_inverse", sx.phasor_turns_eq(K[i] * Km[i], 0), replay=rp, info=str(i))
        if order == 1:
            spec = []
            for i in range(gpts[0]):
                for j in range(gpts[1]):
                    ki = (i if i < (gpts[0] + 1) // 2 else i - gpts[0]) / (gpts[0] * _z(samp[0]))
                    kj = (j if j < (gpts[1] + 1) // 2 else j - gpts[1]) / (gpts[1] * _z(samp[1]))
                    spec.append(sx.phasor_turns_eq(K[i, j], -(ki * ki + kj * kj) * _z(dz) * LAM / 2))
            c.prove("propagator.fresnel_phase", zand(*spec), replay=rp)
        c.canary("propagator.canary_real", zand(*[sx.phasor_turns_eq(K[i], 0) for i in np.ndindex(K.shape)]))
    return fn


def _propagator(gpts, order, which):
    """aperture and complete propagator: sampling as exact constants (comparisons of pixel radii against the cutoff
    with a symbolic sampling do not finish), thickness and wavelength symbolic"""
    rp = R_P(gpts, order)

    def fn(c):
        c.pc += sx.pi_axioms() + [LAM > 0]
        a, b = c.real("dx"), c.real("dy")
        sv = tuple(z3.RealVal(x) for x in SAMPLINGS[which])
        c.assume(_z(a) == sv[0]); c.assume(_z(b) == sv[1])
        samp = (SNum(sv[0]), SNum(sv[1]))
        dz = c.real("dz")
        A = AA.antialias_aperture(gpts, samp, patch.shim())
        c.prove("antialias_aperture.in_0_1", zand(*[zand(_z(A[i]) >= 0, _z(A[i]) <= 1) for i in np.ndindex(A.shape)]), replay=rp)
        w = mk_waves(gpts, samp)
        full = MS.FresnelPropagator._calculate_array(w, dz, order=order)
        back = MS.FresnelPropagator._calculate_array(w, -dz, order=order)
        ok, rev = [], []
        for i in np.ndindex(full.shape):
            a2 = _real(_z(A[i])) * _real(_z(A[i]))
            ok.append(zand(sx.cabs2(full[i]) <= 1, sx.cabs2(full[i]) == a2))
            p = full[i] * back[i]
            if isinstance(p, Polar):
                rev.append(zand(sx.turns_mod1_eq(p.tau, 0), p.amp == a2, z3.Implies(_z(A[i]) == 1, p.amp == 1)))
            else:
                rev.append(z3.BoolVal(False))
        c.prove("full_propagator.modulus_is_aperture_le_1", zand(*ok), replay=rp)
        c.prove("full_propagator.dz_then_minus_dz_is_identity_inside_aperture", zand(*rev), replay=rp)
        c.canary("full_propagator.canary_all_pass", zand(*[sx.cabs2(full[i]) == 1 for i in np.ndindex(full.shape)]))
    return fn


def R_P(gpts, order):
    return make("""
    from abtem.multislice import _fresnel_propagator_array, FresnelPropagator
    from abtem.antialias import antialias_aperture
    from abtem.core.energy import energy2wavelength
    import abtem
    dx, dy, dz = float(V['dx']), float(V['dy']), float(V['dz'])
    lam = energy2wavelength(100e3)
    # keep the phase moderate: the identities are exact in dz, choose a comparable dz on this grid
    dz = np.sign(dz) * min(abs(dz), 0.5 * min(dx, dy) ** 2 / lam) if dz != 0 else 0.0
    K = _fresnel_propagator_array(dz, GPTS, (dx, dy), 100e3, 'cpu', order=ORDER); Km = _fresnel_propagator_array(-dz, GPTS, (dx, dy), 100e3, 'cpu', order=ORDER)
    if np.abs(np.abs(K) - 1).max() > 1e-5: bad, why = True, f"propagator modulus {np.abs(K).max()}"
    if np.abs(K * Km - 1).max() > 1e-4: bad, why = True, f"K(dz) K(-dz) differs from 1 by {np.abs(K * Km - 1).max()}"
    A = antialias_aperture(GPTS, (dx, dy), np)
    if A.min() < -1e-6 or A.max() > 1 + 1e-6: bad, why = True, f"antialias aperture range [{A.min()}, {A.max()}]"
    w = abtem.PlaneWave(gpts=GPTS, sampling=(dx, dy), energy=100e3).build(lazy=False)
    F1 = FresnelPropagator._calculate_array(w, dz, order=ORDER); F2 = FresnelPropagator._calculate_array(w, -dz, order=ORDER)
    if np.abs(F1).max() > 1 + 1e-5: bad, why = True, f"|propagator x aperture| reaches {np.abs(F1).max()} > 1"
    if np.abs(np.abs(F1) - A).max() > 1e-5: bad, why = True, "modulus is not the aperture"
    inside = A > 1 - 1e-6
    if inside.any() and np.abs((F1 * F2)[inside] - 1).max() > 1e-4: bad, why = True, f"dz then -dz is not the identity inside the aperture ({np.abs((F1 * F2)[inside] - 1).max()})"
    if ORDER == 1:
        kx = np.fft.fftfreq(GPTS[0], dx); ky = np.fft.fftfreq(GPTS[1], dy)
        ref = np.exp(-1j * np.pi * lam * dz * (kx[:, None] ** 2 + ky[None] ** 2))
        if np.abs(K - ref).max() > 1e-3: bad, why = True, "Fresnel phase"
""", GPTS=tuple(gpts), ORDER=order)


def _tilted(gpts, order, which):
    """complete propagator of a TILTED beam: still modulus = aperture, and -dz still undoes dz (symbolic tilt, thickness of any sign)"""
    rp = R_PT(gpts, order)

    def fn(c):
        c.pc += sx.pi_axioms() + [LAM > 0]
        a, b = c.real("dx"), c.real("dy")
        sv = tuple(z3.RealVal(x) for x in SAMPLINGS[which])
        c.assume(_z(a) == sv[0]); c.assume(_z(b) == sv[1])
        samp = (SNum(sv[0]), SNum(sv[1]))
        dz = c.real("dz")
        tx, ty = c.real("tx", -100, 100), c.real("ty", -100, 100)
        A = AA.antialias_aperture(gpts, samp, patch.shim())
        w = mk_waves(gpts, samp, tilt=(tx, ty))
        full = MS.FresnelPropagator._calculate_array(w, dz, order=order)
        back = MS.FresnelPropagator._calculate_array(w, -dz, order=order)
        ok, rev = [], []
        for i in np.ndindex(full.shape):
            a2 = _real(_z(A[i])) * _real(_z(A[i]))
            ok.append(sx.cabs2(full[i]) == a2)
            p = full[i] * back[i]
            rev.append(zand(sx.turns_mod1_eq(p.tau, 0), p.amp == a2) if isinstance(p, Polar) else z3.BoolVal(False))
        c.prove("tilted_propagator.modulus_is_aperture", zand(*ok), replay=rp)
        c.prove("tilted_propagator.dz_then_minus_dz_is_identity_inside_aperture", zand(*rev), replay=rp)
        c.canary("tilted_propagator.canary_tilt_has_no_effect", zand(*[sx.turns_mod1_eq(full[i].tau, MS.FresnelPropagator._calculate_array(mk_waves(gpts, samp), dz, order=order)[i].tau)
                                                                    for i in np.ndindex(full.shape) if isinstance(full[i], Polar)]))
    return fn


def R_PT(gpts, order):
    return make("""
    from abtem.multislice import FresnelPropagator
    from abtem.antialias import antialias_aperture
    from abtem.core.energy import energy2wavelength
    import abtem
    dx, dy, dz = float(V['dx']), float(V['dy']), float(V['dz'])
    tx, ty = float(V.get('tx', 20.0)) or 20.0, float(V.get('ty', -10.0))
    lam = energy2wavelength(100e3)
    dz = np.sign(dz) * min(max(abs(dz), 1.0), 20.0) if dz != 0 else 2.0
    A = antialias_aperture(GPTS, (dx, dy), np)
    w = abtem.PlaneWave(gpts=GPTS, sampling=(dx, dy), energy=100e3, tilt=(tx, ty)).build(lazy=False)
    F1 = FresnelPropagator._calculate_array(w, dz, order=ORDER); F2 = FresnelPropagator._calculate_array(w, -dz, order=ORDER)
    F1 = np.asarray(F1).reshape(GPTS); F2 = np.asarray(F2).reshape(GPTS)
    if np.abs(np.abs(F1) - A).max() > 1e-5: bad, why = True, "tilted propagator: modulus is not the aperture"
    inside = A > 1 - 1e-6
    if inside.any() and np.abs((F1 * F2)[inside] - 1).max() > 1e-3: bad, why = True, f"tilt ({tx}, {ty}) mrad: dz = {dz} then -dz is not the identity inside the aperture (|K(dz)K(-dz) - 1| = {np.abs((F1 * F2)[inside] - 1).max()})"
""", GPTS=tuple(gpts), ORDER=order)


def _transmission(c):
    c.pc += sx.pi_axioms() + [SIG > 0]
    Vv = sx.sym_array(c, "v", (2, 2, 2))
    t = IAM.PotentialArray._transmission_function(Vv, 100e3)
    c.prove("transmission.unit_modulus_for_real_potential", zand(*[sx.cabs2(t[i]) == 1 for i in np.ndindex(t.shape)]), replay=R_T)
    c.prove("transmission.phase_is_sigma_v", zand(*[sx.phasor_turns_eq(t[i], SIG * _z(Vv[i]) / (2 * sx.PI)) for i in np.ndindex(t.shape)]), replay=R_T)
    c.canary("transmission.canary", zand(*[sx.phasor_turns_eq(t[i], 0) for i in np.ndindex(t.shape)]))


R_T = make("""
    from abtem.potentials.iam import PotentialArray
    from abtem.core.energy import energy2sigma
    v = np.array([float(V[k]) for k in sorted(V) if k.startswith('v_')], dtype=np.float32).reshape(2, 2, 2)
    v = np.clip(v, -1e4, 1e4)
    t = PotentialArray._transmission_function(v, 100e3)
    if np.abs(np.abs(t) - 1).max() > 1e-5: bad, why = True, f"|t| = {np.abs(t).ravel()}"
    if np.abs(t - np.exp(1j * energy2sigma(100e3) * v)).max() > 1e-2: bad, why = True, "phase"
""")


def cases(tier):
    q = tier == "quick"
    out = []
    for g in ((2, 3), (3, 4), (4, 4)) if q else ((2, 3), (3, 4), (4, 4), (5, 6), (6, 6)):
        for order in (1, 2):
            out.append(Case(f"phase.{g[0]}x{g[1]}.order{order}", _phase(g, order), setup=_setup, budget_s=240 if q else 1500))
            for which in SAMPLINGS:
                out.append(Case(f"propagator.{g[0]}x{g[1]}.order{order}.{which}", _propagator(g, order, which), setup=_setup, max_paths=3000,
                                budget_s=240 if q else 1500))
    for g in ((2, 3), (3, 4)) if q else ((2, 3), (3, 4), (4, 4)):
        for order in (1, 2):
            out.append(Case(f"tilted.{g[0]}x{g[1]}.order{order}.aniso", _tilted(g, order, "aniso"), setup=_setup, max_paths=3000, budget_s=240 if q else 1500))
    out.append(Case("transmission", _transmission, setup=_setup))
    return out
