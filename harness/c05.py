"""C05 Built probes and plane waves are normalized."""
import numpy as np
import z3

from engine import sx, patch, snp
from engine.run import Case
from engine.replay import make
from engine.sx import SNum, SComplex, Polar, zand, _z, _real

PROPERTY = "C05"
BOUNDS = {
    "quick": "_WavesNormalization on symbolic complex arrays 2x2 and 1x2 batches (real- and reciprocal-space input, exact DFT); PlaneWave._calculate_array with gpts symbolic in 1..4 "
             "per axis (case-split), normalize on/off, no tilt / scalar tilt / a tilt ensemble of 2 and 3 members; Probe build order (aperture, tilt, aberrations, then normalisation last) "
             "as a call-order fact",
    "thorough": "normalisation arrays up to 2x4 and 4x4; gpts up to 6",
}
OUTSIDE = ["FFT values beyond the exact DFT sizes", "probe values (aperture/aberration factors are covered by C21/C23; any factor applied BEFORE the normalisation cannot change the norm)",
           "lazy builds"]
STUBS = ["fft2/ifft2 -> exact DFT (lengths 1, 2, 4)", "abs2 -> re^2 + im^2", "np.sqrt -> exact model", "the reciprocal-space intensity of a constant array a0 with N pixels is |N a0|^2 (DFT of a constant)"]
ASSUMPTIONS = ["the array to normalise has non-zero norm"]

import abtem.waves as W
import abtem.tilt as T
import abtem.array as A
import abtem.transform as TRF
import abtem.core.grid as G
import abtem


def _abs2(a):
    a = snp._oarr(a)
    out = np.empty(a.shape, dtype=object)
    for i in np.ndindex(a.shape):
        out[i] = SNum(sx.cabs2(a[i]))
    return out.view(snp.SymArr)


def _setup():
    patch.patch(W)
    patch.patch(G)
    patch.set(W, "fft2", lambda a, overwrite_x=False, **k: snp.exact_fftn(a, (-2, -1), False))
    patch.set(W, "ifft2", lambda a, overwrite_x=False, **k: snp.exact_fftn(a, (-2, -1), True))
    patch.set(W, "abs2", _abs2)


class _WStub:
    def __init__(self, arr, recip):
        self._eager_array = arr
        self._reciprocal_space = recip


def _normalize(shape, recip):
    rp = R_N(shape, recip)

    def fn(c):
        c.div_as_inv = True
        A_ = sx.sym_array(c, "a", shape, kind="complex")
        for b in np.ndindex(shape[:-2]):
            c.assume(sum((sx.cabs2(x) for x in A_[b].ravel()), z3.RealVal(0)) > 0)
        out = W._WavesNormalization(space="reciprocal", in_place=False)._calculate_new_array(_WStub(A_, recip))
        spec = out if recip else snp.exact_fftn(out, (-2, -1), False)
        for b in np.ndindex(shape[:-2]):
            tot = sum((sx.cabs2(x) for x in np.asarray(spec)[b].ravel()), z3.RealVal(0))
            c.prove("normalize.unit_reciprocal_space_intensity_per_wave", tot == 1, replay=rp, info=str(b))
        # direction unchanged: out = in / f with one positive f per wave
        c.canary("normalize.canary_unchanged", sx.zeq(SComplex.of(np.asarray(out).ravel()[0]), SComplex.of(A_.ravel()[0])))
    return fn


def R_N(shape, recip):
    return make("""
    import abtem
    A = np.array([float(V[k]) for k in sorted(V) if k.startswith('a_')]).reshape(-1, 2)
    A = (A[:, 1] + 1j * A[:, 0]).reshape(SHAPE).astype(np.complex128)
    w = abtem.Waves(A.astype(np.complex64), energy=100e3, sampling=0.1, reciprocal_space=RECIP, ensemble_axes_metadata=[abtem.core.axes.OrdinalAxis(values=tuple(range(SHAPE[0])))] if len(SHAPE) == 3 else None)
    out = w.normalize(space='reciprocal')
    spec = np.asarray(out.array) if RECIP else np.fft.fft2(np.asarray(out.array))
    tot = (np.abs(spec) ** 2).sum((-2, -1))
    if np.abs(tot - 1).max() > 1e-4: bad, why = True, f"reciprocal-space intensity after normalize: {tot}"
""", SHAPE=tuple(shape), RECIP=recip)


def _planewave(N, tilt_mode, normalize):
    rp = R_PW(tilt_mode, normalize)

    def fn(c):
        n0 = c.int("n0", 1, N); n1 = c.int("n1", 1, N)
        g = (int(n0), int(n1))
        if tilt_mode == "none":
            tilt = (0.0, 0.0)
        elif tilt_mode == "scalar":
            tilt = (2.0, -1.0)
        elif tilt_mode == "ens2":
            tilt = (np.array([0.0, 3.0]), 0.0)
        else:
            tilt = np.array([[0.0, 0.0], [1.0, 2.0], [-2.0, 0.5]])
        pw = abtem.PlaneWave(gpts=g, sampling=0.2, energy=100e3, tilt=tilt, normalize=normalize)
        arr = np.asarray(abtem.PlaneWave._calculate_array(pw))
        nt = {"none": (), "scalar": (), "ens2": (2,), "ens3": (3,)}[tilt_mode]
        ok = [arr.shape == nt + g]
        N_ = g[0] * g[1]
        for b in np.ndindex(nt):
            wave = arr[b]
            const = bool(np.all(wave == wave.flat[0]))
            a0 = complex(wave.flat[0])
            if normalize:
                # reciprocal-space intensity of a constant array: |N a0|^2
                ok.append(const and abs(abs(N_ * a0) ** 2 - 1.0) < 1e-5)
            else:
                ok.append(bool(np.all(np.abs(np.abs(wave) - 1.0) < 1e-6)))
        c.prove("planewave.unit_reciprocal_intensity_or_unit_modulus", all(ok), replay=rp)
        c.canary("planewave.canary", bool(arr.flat[0] == 1.0) and N_ > 1 and normalize)
    return fn


def R_PW(tilt_mode, normalize):
    return make("""
    import abtem
    g = (int(V['n0']), int(V['n1']))
    tilt = {'none': (0.0, 0.0), 'scalar': (2.0, -1.0), 'ens2': (np.array([0.0, 3.0]), 0.0), 'ens3': np.array([[0.0, 0.0], [1.0, 2.0], [-2.0, 0.5]])}[MODE]
    w = abtem.PlaneWave(gpts=g, sampling=0.2, energy=100e3, tilt=tilt, normalize=NORM).build(lazy=False)
    arr = np.asarray(w.array).reshape((-1,) + g)
    for k, wave in enumerate(arr):
        if NORM:
            tot = (np.abs(np.fft.fft2(wave)) ** 2).sum()
            if abs(tot - 1) > 1e-4: bad, why = True, f"PlaneWave(gpts={g}, normalize=True, tilt={MODE}) member {k}: reciprocal-space intensity {tot}"
        elif np.abs(np.abs(wave) - 1).max() > 1e-5: bad, why = True, f"PlaneWave(normalize=False) member {k}: modulus {np.abs(wave).ravel()[:3]}"
""", MODE=tilt_mode, NORM=normalize)


def _probe_order(c):
    """normalisation is the last amplitude-changing stage of Probe._calculate_array"""
    calls = []
    real_norm = W.Waves.normalize

    def spy(name, f):
        def g(self, *a, **k):
            calls.append(name)
            return f(self, *a, **k)
        return g

    patch.set(W.Waves, "normalize", spy("normalize", real_norm))
    import abtem.transfer as TR
    patch.set(TR.Aperture, "apply", spy("aperture", TR.Aperture.apply))
    patch.set(TR.Aberrations, "apply", spy("aberrations", TR.Aberrations.apply))
    patch.set(T.BaseBeamTilt, "apply", spy("tilt", T.BaseBeamTilt.apply))
    n = c.int("n", 4, 6)
    p = abtem.Probe(gpts=(int(n), int(n) + 1), sampling=0.3, energy=100e3, semiangle_cutoff=20, defocus=30.0, tilt=(1.0, 0.0))
    arr = abtem.Probe._calculate_array(p._build_validated_dummy() if hasattr(p, "_build_validated_dummy") else _validated(p))
    c.prove("probe.normalisation_is_the_last_stage", calls[-1:] == ["normalize"] and set(calls[:-1]) == {"aperture", "tilt", "aberrations"}, replay=None, info=str(calls))
    spec = np.fft.fft2(np.asarray(arr).reshape((-1,) + arr.shape[-2:]))
    c.prove("probe.unit_reciprocal_intensity", bool(np.all(np.abs((np.abs(spec) ** 2).sum((-2, -1)) - 1) < 1e-4)), replay=None)


def _validated(p):
    import copy
    q = copy.deepcopy(p)
    q._scan_positions = abtem.scan.CustomScan([[0.3, 0.2], [1.0, 0.5]])
    return q


def cases(tier):
    q = tier == "quick"
    out = []
    for shape in ((2, 2), (1, 2), (2, 1, 2)) if q else ((2, 2), (1, 2), (2, 1, 2), (2, 4), (2, 2, 2)):
        for recip in (True, False):
            out.append(Case(f"normalize.{'x'.join(map(str, shape))}.{'reciprocal' if recip else 'real'}", _normalize(shape, recip), setup=_setup,
                            timeout_ms=60000, budget_s=300 if q else 1500))
    for mode in ("none", "scalar", "ens2", "ens3"):
        for norm in (True, False):
            out.append(Case(f"planewave.{mode}.{'normalized' if norm else 'unit_modulus'}", _planewave(4 if q else 6, mode, norm), max_paths=200))
    out.append(Case("probe.order", _probe_order))
    return out
