"""CrossHair contracts over the real abtem.core.config.set (C34). Each function returns True when the configuration
after leaving the context(s) equals a deep copy taken before entering."""
import copy

from abtem.core import config as cfgmod

ALPHA = "a._"
BASE_ALPHA = "a_-"


def _base(base_kind: int, base_key: str) -> dict:
    cfg = {}
    if base_kind == 1:
        cfg[base_key] = 1
    elif base_kind == 2:
        cfg[base_key] = {"a": 1}
    elif base_kind == 3:
        cfg[base_key] = {"a": {"a": 1}, "a_": 2}
    return cfg


def restore_one(key: str, value: int, base_kind: int, base_key: str) -> bool:
    """
    pre: 1 <= len(key) <= 3 and len(base_key) == 1
    pre: all(ch in "a._" for ch in key) and all(ch in "a_-" for ch in base_key)
    pre: 0 <= base_kind <= 2
    post: _
    """
    cfg = _base(base_kind, base_key)
    before = copy.deepcopy(cfg)
    try:
        with cfgmod.set({key: value}, config=cfg):
            pass
    except (TypeError, KeyError, AttributeError):
        return cfg == before
    return cfg == before


def restore_one_exception(key: str, value: int, base_kind: int, base_key: str) -> bool:
    """
    pre: 1 <= len(key) <= 3 and len(base_key) == 1
    pre: all(ch in "a._" for ch in key) and all(ch in "a_-" for ch in base_key)
    pre: 0 <= base_kind <= 2
    post: _
    """
    cfg = _base(base_kind, base_key)
    before = copy.deepcopy(cfg)
    try:
        with cfgmod.set({key: value}, config=cfg):
            raise ValueError("leave through an exception")
    except ValueError:
        pass
    except (TypeError, KeyError, AttributeError):
        pass
    return cfg == before


def restore_nested(key1: str, key2: str, base_kind: int, base_key: str, exc: bool) -> bool:
    """
    pre: 1 <= len(key1) <= 2 and 1 <= len(key2) <= 2 and len(base_key) == 1
    pre: all(ch in "a._" for ch in key1) and all(ch in "a." for ch in key2) and all(ch in "a_-" for ch in base_key)
    pre: 0 <= base_kind <= 2
    post: _
    """
    cfg = _base(base_kind, base_key)
    before = copy.deepcopy(cfg)
    try:
        with cfgmod.set({key1: 5}, config=cfg):
            mid = copy.deepcopy(cfg)
            try:
                with cfgmod.set({key2: 6}, config=cfg):
                    if exc:
                        raise ValueError("inner")
            except ValueError:
                pass
            except (TypeError, KeyError, AttributeError):
                pass
            if cfg != mid:
                return False
    except (TypeError, KeyError, AttributeError):
        pass
    return cfg == before


def restore_kwargs(value: int, base_kind: int) -> bool:
    """
    pre: 0 <= base_kind <= 2
    post: _
    """
    cfg = {"a-a": 1} if base_kind == 1 else {"a": {"a-a": 1}} if base_kind == 2 else {}
    before = copy.deepcopy(cfg)
    with cfgmod.set(config=cfg, a_a=value, a__a_a=value):
        pass
    return cfg == before


def twin_reachable(key: str, value: int, base_kind: int, base_key: str) -> bool:
    """
    pre: 1 <= len(key) <= 3 and len(base_key) == 1
    pre: all(ch in "a._" for ch in key) and all(ch in "a_-" for ch in base_key)
    pre: 0 <= base_kind <= 2
    post: not _
    """
    return restore_one(key, value, base_kind, base_key)
