"""C01 Lazy and eager evaluation produce the same simulation results.

The REAL pipelines (Probe/PlaneWave.multislice, WavesBuilder._build_validated, ArrayObject.apply_transform with its
multi_output_blockwise dask graph, MultisliceTransform._partition_args/_from_partitioned_args, multislice_and_detect)
are executed twice -- eagerly and through a real dask graph -- on wave arrays whose entries are terms of an
uninterpreted sort: built wave -> probe(x, y) / planewave, one multislice step -> step(wave, slice_id), detector d ->
det_d(wave).  The solver then decides, for every output entry, that the lazy term equals the eager term for ALL
interpretations of probe/step/det (i.e. all wave functions, potentials, propagators and detectors of the given kind).
"""
import itertools

import numpy as np
import z3

from engine import sx, patch
from engine.run import Case
from engine.replay import make
from engine.sx import Tok, zand
from harness import ms_common as M

PROPERTY = "C01"
BOUNDS = {
    "quick": "potential: 0 (no ensemble axis), 1, 2 or 3 configurations x 1..3 slices, every exit-plane subset (<= 3 slices); detector sets {waves}, {annular-like (drops base axes)}, "
             "{both}; scans none / point / CustomScan(3) / LineScan(3) / GridScan(3x3); max_batch in {1, 2, 3, 4, 'auto'} (so that scan axes are split into equal blocks and into blocks with a remainder); prebuilt lazy waves with every chunking of a 3-member axis and of a 2x2 scan; "
             "two dask schedules (whole-graph synchronous order, and every output block computed alone in reverse order); wave functions, slices, propagators, detectors uninterpreted",
    "thorough": "up to 4 configurations x 4 slices, scans up to 4x4, prebuilt axes up to 4 members, max_batch up to 7",
}
OUTSIDE = ["floating-point values of the numerical kernels (identical code runs in both modes; not modelled)", "dask's threaded/distributed schedulers (z3 terms are not thread-safe): only the two "
           "deterministic task orders above are explored, so a data race between blocks is outside the claim", "ensemble_mean reduction and CTF application after the transform (numerical means over uninterpreted terms)",
           "Potential/FrozenPhonons builders (C02, C10, C19 cover their partitioning); PRISM S-matrix pipelines", "dask's blockwise/map_blocks are trusted to call the block function once per output block"]
STUBS = ["Probe._calculate_array -> probe(x, y) per scan position; PlaneWave._calculate_array -> planewave", "conventional_multislice_step -> step(wave, slice_id) in place",
         "detectors: WavesDetector.detect -> det_d(wave); AnnularDetector._calculate_new_array -> det_d(wave) with the base axes dropped", "allocate_multislice_measurements -> object dtype arrays"]
ASSUMPTIONS = ["a multislice step / detector / built probe depends only on its arguments (wave, slice, position)"]

import dask
import dask.array as da
import abtem
import abtem.multislice as MS
import abtem.waves as WV
from abtem.core.axes import OrdinalAxis, ScanAxis
from abtem.detectors import AnnularDetector
from abtem.waves import Waves

PROBE = z3.Function("probe", z3.RealSort(), z3.RealSort(), M.W)
PW = z3.Const("planewave", M.W)


class TagAnnular(AnnularDetector):
    """AnnularDetector (drops the base axes, moves scan axes to the base) with an uninterpreted value"""

    def __init__(self, k):
        super().__init__(inner=0.0, outer=1.0)
        self._k = k

    def _calculate_new_array(self, waves):
        w = waves._eager_array
        a = np.empty(w.shape[:-2], dtype=object)
        for idx in np.ndindex(a.shape):
            a[idx] = Tok(M.DET(z3.IntVal(self._k), w[idx + (0, 0)].e))
        return a


def _stub_probe(wb):
    if hasattr(wb, "item"):
        wb = wb.item()
    pos = np.asarray(wb.scan_positions.get_positions())
    a = np.empty(pos.shape[:-1] + (1, 1), dtype=object)
    for idx in np.ndindex(pos.shape[:-1]):
        x, y = pos[idx]
        a[idx + (0, 0)] = Tok(PROBE(z3.RealVal(repr(float(x))), z3.RealVal(repr(float(y)))))
    return a


def _stub_pw(wb):
    if hasattr(wb, "item"):
        wb = wb.item()
    a = np.empty((1, 1), dtype=object)
    a[0, 0] = Tok(PW)
    return a


def _setup():
    import warnings
    warnings.filterwarnings("ignore")
    M.setup()
    patch.set(WV.Probe, "_calculate_array", staticmethod(_stub_probe))
    patch.set(WV.PlaneWave, "_calculate_array", staticmethod(_stub_pw))


DETS = {
    "waves": lambda: [M.TagDetector(0)],
    "annular": lambda: [TagAnnular(1)],
    "both": lambda: [M.TagDetector(0), TagAnnular(1)],
}


def _subsets(n):
    idx = list(range(-1, n - 1))
    for r in range(0, len(idx) + 1):
        for sub in itertools.combinations(idx, r):
            yield tuple(sub) + (n - 1,)


def _compositions(n):
    for k in range(1, n + 1):
        for cuts in itertools.combinations(range(1, n), k - 1):
            b = (0,) + cuts + (n,)
            yield tuple(b[i + 1] - b[i] for i in range(k))


def _aslist(x):
    return list(x) if isinstance(x, (list, tuple)) else [x]


def _sig(m):
    axes = []
    for a in m.axes_metadata:
        try:
            d = a.to_dict()
        except Exception:
            d = repr(a)
        axes.append((type(a).__name__, repr(d)))
    return (type(m).__name__, tuple(m.shape), tuple(axes), repr(sorted((k, repr(v)) for k, v in m.metadata.items())))


def _compute_whole(objs):
    with dask.config.set(scheduler="synchronous"):
        return [o.compute(progress_bar=False) if o.is_lazy else o for o in objs]


def _compute_blocks_reversed(objs):
    """every output block computed on its own, last block first (a second task order; also recomputes upstream
    tasks for every block, so hidden state shared between block tasks would show)"""
    out = []
    with dask.config.set(scheduler="synchronous"):
        for arr in reversed(objs):
            if arr.ndim == 0:
                out.append(np.asarray(arr.compute()))
                continue
            res = np.empty(arr.shape, dtype=object)
            starts = [np.concatenate([[0], np.cumsum(c)]) for c in arr.chunks]
            for bidx in reversed(list(np.ndindex(*arr.numblocks))):
                blk = np.asarray(arr.blocks[bidx].compute())
                sl = tuple(slice(int(starts[d][i]), int(starts[d][i + 1])) for d, i in enumerate(bidx))
                res[sl] = blk
            out.append(res)
    return out[::-1]


def _eq_arrays(a, b):
    a = np.asarray(a, dtype=object)
    b = np.asarray(b, dtype=object)
    if a.shape != b.shape:
        return [z3.BoolVal(False)]
    conds = []
    for x, y in zip(a.ravel(), b.ravel()):
        while isinstance(x, np.ndarray) and x.shape == ():  # 0-d outputs come back as nested 0-d object arrays
            x = x.item()
        while isinstance(y, np.ndarray) and y.shape == ():
            y = y.item()
        if isinstance(x, Tok) and isinstance(y, Tok):
            conds.append(x.e == y.e)
        else:
            conds.append(z3.BoolVal(False))
    return conds


def _compare(c, run, replay, info):
    """run(lazy) -> output(s); decides the four C01 obligations for one pipeline instance"""
    res = {}
    for lazy in (False, True):
        try:
            out = _aslist(run(lazy))
            if lazy:
                lazies = [o.array for o in out]  # compute() converts the object in place
                out = _compute_whole(out)
            res[lazy] = out
        except Exception as ex:  # noqa: BLE001
            res[lazy] = ex
    e, l = res[False], res[True]
    e_fail, l_fail = isinstance(e, Exception), isinstance(l, Exception)
    c.prove("lazy_eager.succeed_or_fail_together", e_fail == l_fail, replay=replay,
            info=f"{info} eager={'raises ' + repr(e)[:80] if e_fail else 'ok'} lazy={'raises ' + repr(l)[:80] if l_fail else 'ok'}")
    if e_fail or l_fail:
        return
    c.prove("lazy_eager.same_number_type_shape_axes_metadata", len(e) == len(l) and all(_sig(x) == _sig(y) for x, y in zip(e, l)), replay=replay, info=info)
    conds = []
    for x, y in zip(e, l):
        conds += _eq_arrays(x.array, y.array)
    c.prove("lazy_eager.same_values_for_every_wave_potential_detector", zand(*conds), replay=replay, info=info)
    try:
        rev = _compute_blocks_reversed(lazies)
        conds = []
        for x, y in zip(e, rev):
            conds += _eq_arrays(x.array, y)
    except Exception as ex:  # noqa: BLE001
        conds = [z3.BoolVal(False)]
        info = f"{info} per-block compute raises {ex!r}"[:300]
    c.prove("lazy.block_order_and_recomputation_independent", zand(*conds), replay=replay, info=info)


# ---- whole pipelines: builder -> (scan) -> multislice -> detectors -------------------------------------------------------
def _scan(kind, n):
    if kind == "none":
        return None
    if kind == "point":
        return (0.5, 0.25)
    if kind == "custom":
        return abtem.CustomScan(np.array([[i / 4, (i * i % 3) / 4] for i in range(n)], dtype=float))
    if kind == "line":
        return abtem.LineScan((0, 0), (1, 1), gpts=n)
    if kind == "grid":
        return abtem.GridScan((0, 0), (1, 1), gpts=(n, n), endpoint=False)
    raise ValueError(kind)


def _pipeline(builder, scan_kind, nscan, ncfg, nsl, detset, batches):
    def fn(c):
        for planes in _subsets(nsl):
            for mb in batches:
                def run(lazy, planes=planes, mb=mb):
                    pot = M.make_potential(max(ncfg, 1), nsl, planes, ensemble=ncfg > 0)
                    if builder == "probe":
                        b = abtem.Probe(energy=100e3, semiangle_cutoff=20)
                        return b.multislice(pot, scan=_scan(scan_kind, nscan), detectors=DETS[detset](), lazy=lazy, max_batch=mb)
                    b = abtem.PlaneWave(energy=100e3)
                    return b.multislice(pot, detectors=DETS[detset](), lazy=lazy, max_batch=mb)
                _compare(c, run, R_PIPE(builder, scan_kind, nscan, ncfg, nsl, planes, detset, mb), f"planes={planes} max_batch={mb}")
        c.canary("canary.detectors_indistinguishable", M.DET(z3.IntVal(0), M.W0) == M.DET(z3.IntVal(1), M.W0))
    return fn


def R_PIPE(builder, scan_kind, nscan, ncfg, nsl, planes, detset, mb):
    return make("""
    import abtem, dask
    from abtem.core.axes import FrozenPhononsAxis
    from abtem.potentials.iam import PotentialArray
    rng = np.random.default_rng(0)
    arr = (rng.random(((NCFG,) if NCFG else ()) + (NSL, 8, 8)) * 30).astype(np.float32)
    def pot():
        return PotentialArray(arr.copy(), slice_thickness=1.0, sampling=0.2, exit_planes=PLANES, ensemble_axes_metadata=[FrozenPhononsAxis()] if NCFG else [])
    def dets():
        d = {'waves': [abtem.WavesDetector()], 'annular': [abtem.AnnularDetector(10, 60)], 'both': [abtem.WavesDetector(), abtem.AnnularDetector(10, 60)]}
        return d[DETSET]
    def scan():
        n = NSCAN
        if SCAN == 'none': return None
        if SCAN == 'point': return (0.5, 0.25)
        if SCAN == 'custom': return abtem.CustomScan(np.array([[i / 4, (i * i % 3) / 4] for i in range(n)], dtype=float))
        if SCAN == 'line': return abtem.LineScan((0, 0), (1, 1), gpts=n)
        return abtem.GridScan((0, 0), (1, 1), gpts=(n, n), endpoint=False)
    def run(lazy):
        if BUILDER == 'probe':
            out = abtem.Probe(energy=100e3, semiangle_cutoff=30).multislice(pot(), scan=scan(), detectors=dets(), lazy=lazy, max_batch=MB)
        else:
            out = abtem.PlaneWave(energy=100e3).multislice(pot(), detectors=dets(), lazy=lazy, max_batch=MB)
        out = list(out) if isinstance(out, (list, tuple)) else [out]
        if lazy:
            with dask.config.set(scheduler='synchronous'):
                out = [o.compute(progress_bar=False) for o in out]
        return out
    res = {}
    for lazy in (False, True):
        try:
            res[lazy] = run(lazy)
        except Exception as ex:
            res[lazy] = ex
    e, l = res[False], res[True]
    if isinstance(e, Exception) != isinstance(l, Exception):
        bad, why = True, f"eager: {e!r:.120}; lazy: {l!r:.120}"
    elif not isinstance(e, Exception):
        for x, y in zip(e, l):
            if type(x) is not type(y) or x.shape != y.shape or [type(a) for a in x.axes_metadata] != [type(a) for a in y.axes_metadata]:
                bad, why = True, f"eager {type(x).__name__}{x.shape} vs lazy {type(y).__name__}{y.shape}"
            elif np.abs(np.asarray(x.array) - np.asarray(y.array)).max() > 1e-5 * max(1.0, np.abs(np.asarray(x.array)).max()):
                bad, why = True, f"values differ by {np.abs(np.asarray(x.array) - np.asarray(y.array)).max()}"
""", BUILDER=builder, SCAN=scan_kind, NSCAN=nscan, NCFG=ncfg, NSL=nsl, PLANES=planes, DETSET=detset, MB=mb)


# ---- MultisliceTransform.apply on prebuilt waves with an arbitrary dask chunking -----------------------------------------------
def _prebuilt(layout, ncfg, nsl, detset, batches):
    def fn(c):
        if layout[0] == "axis":
            n = layout[1]
            shape = (n,)
            axes = lambda: [OrdinalAxis(label="p", values=tuple(range(n)))]
            chunkings = [(ch,) for ch in _compositions(n)]
        else:
            n0, n1 = layout[1], layout[2]
            shape = (n0, n1)
            axes = lambda: [ScanAxis(label="x", sampling=0.5, units="Å"), ScanAxis(label="y", sampling=0.25, units="Å")]
            chunkings = [(a, b) for a in _compositions(n0) for b in _compositions(n1)]
        wa = np.empty(shape + (1, 1), dtype=object)
        for idx in np.ndindex(shape):
            wa[idx + (0, 0)] = Tok(z3.Const("w_" + "_".join(map(str, idx)), M.W))
        for planes in _subsets(nsl):
            for chunks in chunkings:
                for mb in batches:
                    def run(lazy, planes=planes, chunks=chunks, mb=mb):
                        pot = M.make_potential(max(ncfg, 1), nsl, planes, ensemble=ncfg > 0)
                        T = MS.MultisliceTransform(pot, DETS[detset]())
                        a = wa.copy()
                        if lazy:
                            a = da.from_array(a, chunks=chunks + ((1,), (1,)))
                        w = Waves(a, energy=100e3, sampling=1.0, ensemble_axes_metadata=axes())
                        return T.apply(w, max_batch=mb)
                    _compare(c, run, R_PRE(layout, ncfg, nsl, planes, detset, chunks, mb), f"planes={planes} chunks={chunks} max_batch={mb}")
        c.canary("canary.members_indistinguishable", wa.ravel()[0].e == wa.ravel()[-1].e)
    return fn


def R_PRE(layout, ncfg, nsl, planes, detset, chunks, mb):
    return make("""
    import abtem, dask, dask.array as da
    from abtem.core.axes import FrozenPhononsAxis, OrdinalAxis, ScanAxis
    from abtem.potentials.iam import PotentialArray
    from abtem.multislice import MultisliceTransform
    from abtem.waves import Waves
    rng = np.random.default_rng(0)
    arr = (rng.random(((NCFG,) if NCFG else ()) + (NSL, 8, 8)) * 30).astype(np.float32)
    shape = (LAYOUT[1],) if LAYOUT[0] == 'axis' else (LAYOUT[1], LAYOUT[2])
    wa = (rng.random(shape + (8, 8)) + 1j * rng.random(shape + (8, 8))).astype(np.complex64)
    def axes():
        if LAYOUT[0] == 'axis': return [OrdinalAxis(label='p', values=tuple(range(shape[0])))]
        return [ScanAxis(label='x', sampling=0.5, units='Å'), ScanAxis(label='y', sampling=0.25, units='Å')]
    def dets():
        d = {'waves': [abtem.WavesDetector()], 'annular': [abtem.AnnularDetector(10, 60)], 'both': [abtem.WavesDetector(), abtem.AnnularDetector(10, 60)]}
        return d[DETSET]
    def run(lazy):
        pot = PotentialArray(arr.copy(), slice_thickness=1.0, sampling=0.2, exit_planes=PLANES, ensemble_axes_metadata=[FrozenPhononsAxis()] if NCFG else [])
        a = wa.copy()
        if lazy: a = da.from_array(a, chunks=CHUNKS + ((8,), (8,)))
        w = Waves(a, energy=100e3, sampling=0.2, ensemble_axes_metadata=axes())
        out = MultisliceTransform(pot, dets()).apply(w, max_batch=MB)
        out = list(out) if isinstance(out, (list, tuple)) else [out]
        if lazy:
            with dask.config.set(scheduler='synchronous'):
                out = [o.compute(progress_bar=False) for o in out]
        return out
    res = {}
    for lazy in (False, True):
        try:
            res[lazy] = run(lazy)
        except Exception as ex:
            res[lazy] = ex
    e, l = res[False], res[True]
    if isinstance(e, Exception) != isinstance(l, Exception):
        bad, why = True, f"eager: {e!r:.120}; lazy: {l!r:.120}"
    elif not isinstance(e, Exception):
        for x, y in zip(e, l):
            if type(x) is not type(y) or x.shape != y.shape or [type(a) for a in x.axes_metadata] != [type(a) for a in y.axes_metadata]:
                bad, why = True, f"eager {type(x).__name__}{x.shape} vs lazy {type(y).__name__}{y.shape}"
            elif np.abs(np.asarray(x.array) - np.asarray(y.array)).max() > 1e-5 * max(1.0, np.abs(np.asarray(x.array)).max()):
                bad, why = True, f"values differ by {np.abs(np.asarray(x.array) - np.asarray(y.array)).max()}"
""", LAYOUT=layout, NCFG=ncfg, NSL=nsl, PLANES=planes, DETSET=detset, CHUNKS=chunks, MB=mb)


def cases(tier):
    q = tier == "quick"
    out = []
    batches = (1, 2, 3, 4, "auto") if q else (1, 2, 3, 4, 5, 7, "auto")  # 4 on a 3x3 grid scan gives blocks (2,1)x(2,1): a remainder block on both axes
    nscan = 3 if q else 4
    cfgs = (0, 1, 2, 3) if q else (0, 1, 2, 3, 4)
    for scan_kind in ("none", "point", "custom", "line", "grid"):
        for detset in DETS:
            for ncfg in cfgs:
                nsl = 2 if (ncfg in (0, 2) or not q) else 1
                if not q and ncfg == 4:
                    nsl = 4 if scan_kind in ("none", "grid") else 3
                elif not q:
                    nsl = 3
                out.append(Case(f"pipeline.probe.{scan_kind}.cfg{ncfg}.sl{nsl}.{detset}", _pipeline("probe", scan_kind, nscan, ncfg, nsl, detset, batches), setup=_setup))
    for detset in ("waves", "both"):
        for ncfg in cfgs:
            nsl = 3 if ncfg == 2 else 2
            out.append(Case(f"pipeline.planewave.cfg{ncfg}.sl{nsl}.{detset}", _pipeline("planewave", "none", 0, ncfg, nsl, detset, batches), setup=_setup))
    layouts = [("axis", 3), ("scan", 2, 2)] if q else [("axis", 3), ("axis", 4), ("scan", 2, 2), ("scan", 3, 2)]
    for layout in layouts:
        for detset in DETS:
            for ncfg in (0, 2) if q else (0, 1, 2, 3):
                nsl = 2 if q else 3
                name = "x".join(str(v) for v in layout[1:])
                out.append(Case(f"prebuilt.{layout[0]}{name}.cfg{ncfg}.sl{nsl}.{detset}", _prebuilt(layout, ncfg, nsl, detset, batches[:3] if q else batches), setup=_setup))
    return out
