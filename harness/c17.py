"""C17 Simulation grids stay consistent through any history of edits (one inductive step from an arbitrary valid state)."""
import z3

from engine import sx, patch
from engine.run import Case
from engine.replay import make
from engine.sx import SNum, SBool, _z, zand

PROPERTY = "C17"
BOUNDS = {
    "quick": "one assignment (extent | gpts | sampling) with an arbitrary real/int argument from an ARBITRARY pre-state "
             "satisfying the representation invariant; pre-state definedness in {all, extent-only, gpts-only, sampling-only, none}; "
             "all 16 lock/endpoint flag combinations symbolic; dimensions = 1; gpts unbounded integers >= 1; Grid.__init__ for every argument subset",
    "thorough": "same, dimensions 1 and 2 (independent symbolic values per dimension), plus Grid.match between two arbitrary valid grids",
}
OUTSIDE = ["gpts - endpoint == 0 (degenerate single-point endpoint grids)", "float round-off below 1e-9 relative",
           "histories are covered by induction over this one step, assuming the stated invariant characterises reachable states"]
STUBS = ["np.ceil -> integer ceiling over the reals", "np.allclose/isclose -> |a-b| <= atol + rtol|b| over the reals",
         "float32 casts in Grid.match are the identity (reals)"]
ASSUMPTIONS = ["pre-state invariant: extent, gpts, sampling are each None or positive; if extent and gpts are defined then sampling is defined and extent = (gpts - endpoint) * sampling; gpts - endpoint >= 1",
               "assigned values are positive (gpts: integer >= 1 + endpoint)"]

import abtem.core.grid as G


def _setup():
    patch.patch(G, dtype=False)


KINDS = {"all": (1, 1, 1), "e": (1, 0, 0), "g": (0, 1, 0), "s": (0, 0, 1), "none": (0, 0, 0)}


def _mk_state(c, kind, dims):
    he, hg, hs = KINDS[kind]
    ep = tuple(bool(c.bool(f"ep{i}")) for i in range(dims))
    g = G.Grid.__new__(G.Grid)
    g._dimensions = dims
    g._endpoint = ep
    n = [c.int(f"n{i}", 1) for i in range(dims)]
    d = [c.real(f"d{i}", 0, lo_strict=True) for i in range(dims)]
    e = [c.real(f"e{i}", 0, lo_strict=True) for i in range(dims)]
    for i in range(dims):
        if hg:
            c.assume(n[i] - (1 if ep[i] else 0) >= 1)
        if he and hg:
            c.assume(_z(e[i]) == z3.ToReal(_z(n[i]) - (1 if ep[i] else 0)) * _z(d[i]))
    g._extent = tuple(e) if he else None
    g._gpts = tuple(n) if hg else None
    g._sampling = tuple(d) if hs else None
    g._lock_extent = bool(c.bool("le"))
    g._lock_gpts = bool(c.bool("lg"))
    g._lock_sampling = bool(c.bool("ls"))
    return g, ep


def _snapshot(g):
    return (g._extent, g._gpts, g._sampling)


def _same(a, b):
    if a is None or b is None:
        return z3.BoolVal(a is None and b is None)
    return zand(*[_z(x) == _z(y) for x, y in zip(a, b)])


def _inv(g, ep):
    if g._extent is None or g._gpts is None:
        return z3.BoolVal(True)
    if g._sampling is None:
        return z3.BoolVal(False)
    return zand(*[_z(E) == z3.ToReal(_z(N) - (1 if e else 0)) * _z(D)
                  for E, N, D, e in zip(g._extent, g._gpts, g._sampling, ep)])


def _step(kind, op, dims):
    rp = R_STEP(kind, op, dims)

    def fn(c):
        g, ep = _mk_state(c, kind, dims)
        pre = _snapshot(g)
        if op == "gpts":
            val = tuple(c.int(f"v{i}", 1) for i in range(dims))
            for i in range(dims):
                c.assume(val[i] - (1 if ep[i] else 0) >= 1)
        else:
            val = tuple(c.real(f"v{i}", 0, lo_strict=True) for i in range(dims))
        arg = val if dims > 1 else val[0]
        try:
            setattr(g, op, arg)
        except RuntimeError:
            post = _snapshot(g)
            c.prove("raise.leaves_state_unchanged", zand(*[_same(a, b) for a, b in zip(pre, post)]), replay=rp)
            locked = {"extent": g._lock_extent, "gpts": g._lock_gpts, "sampling": g._lock_sampling}
            c.prove("raise.only_when_a_lock_forbids", locked[op] or (g._lock_extent + g._lock_gpts + g._lock_sampling >= 2), replay=rp)
            return
        post = _snapshot(g)
        c.prove("post.consistent", _inv(g, ep), replay=rp)
        for i in range(dims):
            if g._gpts is not None:
                c.output(f"gpts{i}", g._gpts[i])
            if g._sampling is not None:
                c.output(f"sampling{i}", g._sampling[i])
            if g._extent is not None:
                c.output(f"extent{i}", g._extent[i])
        if g._lock_extent and pre[0] is not None:
            c.prove("lock.extent_unchanged", zand(*[sx.zclose(a, b, 1e-5, 1e-8) for a, b in zip(post[0], pre[0])]), replay=rp)
        if g._lock_gpts and pre[1] is not None:
            c.prove("lock.gpts_unchanged", _same(post[1], pre[1]), replay=rp)
        if g._lock_sampling and pre[2] is not None:
            c.prove("lock.sampling_unchanged", _same(post[2], pre[2]), replay=rp)
        tgt = {"extent": 0, "gpts": 1, "sampling": 2}[op]
        if op == "gpts":
            c.prove("assign.gpts_takes_value", _same(post[1], val), replay=rp)
        if kind == "all":
            c.canary("canary.sampling_never_changes", _same(post[2], pre[2]))
        if g._extent is not None and g._gpts is not None and g._sampling is not None:
            r = g.reciprocal_space_sampling
            c.prove("reciprocal_sampling", zand(*[_z(x) * z3.ToReal(_z(N)) * _z(D) == 1 for x, N, D in zip(r, g._gpts, g._sampling)]), replay=rp)
    return fn


def R_STEP(kind, op, dims):
    return make("""
    from abtem.core.grid import Grid
    ep = tuple(bool(V[f'ep{i}']) for i in range(DIMS))
    kw = dict(dimensions=DIMS, endpoint=ep, lock_extent=bool(V['le']), lock_gpts=bool(V['lg']), lock_sampling=bool(V['ls']))
    n = tuple(int(V[f'n{i}']) for i in range(DIMS)); d = tuple(float(V[f'd{i}']) for i in range(DIMS)); e = tuple(float(V[f'e{i}']) for i in range(DIMS))
    if KIND == 'all': g = Grid(gpts=n, sampling=d, **kw)
    elif KIND == 'e': g = Grid(extent=e, **kw)
    elif KIND == 'g': g = Grid(gpts=n, **kw)
    elif KIND == 's': g = Grid(sampling=d, **kw)
    else: g = Grid(**kw)
    pre = (g.extent, g.gpts, g.sampling)
    val = tuple((int if OP == 'gpts' else float)(V[f'v{i}']) for i in range(DIMS))
    def close(a, b): return (a is None and b is None) or (a is not None and b is not None and np.allclose(a, b, rtol=1e-9, atol=0))
    try:
        setattr(g, OP, val if DIMS > 1 else val[0])
        post = (g.extent, g.gpts, g.sampling)
        if g.extent is not None and g.gpts is not None:
            if g.sampling is None or not all(abs(E - (N - int(p)) * D) <= 1e-9 * abs(E) for E, N, D, p in zip(g.extent, g.gpts, g.sampling, ep)):
                bad, why = True, f"inconsistent grid after {OP}={val}: {post} endpoint={ep}"
            r = g.reciprocal_space_sampling
            if not all(abs(x * N * D - 1) < 1e-9 for x, N, D in zip(r, g.gpts, g.sampling)): bad, why = True, "reciprocal sampling"
        if kw['lock_extent'] and pre[0] is not None and not np.allclose(post[0], pre[0], rtol=1e-5, atol=1e-8): bad, why = True, f"locked extent changed {pre[0]} -> {post[0]} by {OP}={val}"
        if kw['lock_gpts'] and pre[1] is not None and post[1] != pre[1]: bad, why = True, f"locked gpts changed {pre[1]} -> {post[1]} by {OP}={val}"
        if kw['lock_sampling'] and pre[2] is not None and not close(post[2], pre[2]): bad, why = True, f"locked sampling changed {pre[2]} -> {post[2]} by {OP}={val}"
        if OP == 'gpts' and post[1] != val: bad, why = True, "gpts not assigned"
    except RuntimeError as ex:
        post = (g.extent, g.gpts, g.sampling)
        if not all(close(a, b) for a, b in zip(pre, post)): bad, why = True, f"raised but state changed {pre} -> {post}"
        nlocks = kw['lock_extent'] + kw['lock_gpts'] + kw['lock_sampling']
        if not (kw['lock_' + OP] or nlocks >= 2): bad, why = True, f"raised without a lock: {ex}"
""", KIND=kind, OP=op, DIMS=dims)


def _step_conc(kind, op):
    def f(v):
        kw = dict(dimensions=1, endpoint=bool(v["ep0"]), lock_extent=bool(v["le"]), lock_gpts=bool(v["lg"]), lock_sampling=bool(v["ls"]))
        g = G.Grid(gpts=int(v["n0"]), sampling=float(v["d0"]), **kw) if kind == "all" else G.Grid(**kw)
        setattr(g, op, v["v0"])
        return {"gpts0": g.gpts[0], "sampling0": g.sampling[0], "extent0": g.extent[0]}
    return f


def _init(given, dims):
    rp = R_INIT(given, dims)

    def fn(c):
        ep = tuple(bool(c.bool(f"ep{i}")) for i in range(dims))
        kw = {}
        e = tuple(c.real(f"e{i}", 0, lo_strict=True) for i in range(dims))
        n = tuple(c.int(f"n{i}", 1) for i in range(dims))
        d = tuple(c.real(f"d{i}", 0, lo_strict=True) for i in range(dims))
        for i in range(dims):
            c.assume(n[i] - (1 if ep[i] else 0) >= 1)
        if "e" in given:
            kw["extent"] = e if dims > 1 else e[0]
        if "g" in given:
            kw["gpts"] = n if dims > 1 else n[0]
        if "s" in given:
            kw["sampling"] = d if dims > 1 else d[0]
        import warnings
        with warnings.catch_warnings():
            warnings.simplefilter("ignore")
            g = G.Grid(dimensions=dims, endpoint=ep if dims > 1 else ep[0], **kw)
        c.prove("init.consistent", _inv(g, ep), replay=rp)
        if "e" in given:
            c.prove("init.extent_kept", _same(g._extent, e), replay=rp)
        if "g" in given:
            c.prove("init.gpts_kept", _same(g._gpts, n), replay=rp)
        if given == "s" or given == "gs":
            c.prove("init.sampling_kept", _same(g._sampling, d), replay=rp)
        if len(given) >= 2:
            c.prove("init.fully_defined", g._extent is not None and g._gpts is not None and g._sampling is not None, replay=rp)
            if "e" in given and "s" in given:
                c.canary("init.canary", _same(g._sampling, d))
    return fn


def R_INIT(given, dims):
    return make("""
    from abtem.core.grid import Grid
    ep = tuple(bool(V[f'ep{i}']) for i in range(DIMS)); kw = {}
    if 'e' in GIVEN: kw['extent'] = tuple(float(V[f'e{i}']) for i in range(DIMS))
    if 'g' in GIVEN: kw['gpts'] = tuple(int(V[f'n{i}']) for i in range(DIMS))
    if 's' in GIVEN: kw['sampling'] = tuple(float(V[f'd{i}']) for i in range(DIMS))
    g = Grid(dimensions=DIMS, endpoint=ep, **kw)
    if g.extent is not None and g.gpts is not None:
        if g.sampling is None or not all(abs(E - (N - int(p)) * D) <= 1e-9 * abs(E) for E, N, D, p in zip(g.extent, g.gpts, g.sampling, ep)):
            bad, why = True, f"inconsistent grid from {kw}: {(g.extent, g.gpts, g.sampling)}"
    if 'e' in GIVEN and not np.allclose(g.extent, kw['extent'], rtol=1e-12): bad, why = True, "extent not kept"
    if 'g' in GIVEN and g.gpts != kw['gpts']: bad, why = True, "gpts not kept"
    if GIVEN in ('s', 'gs') and not np.allclose(g.sampling, kw['sampling'], rtol=1e-12): bad, why = True, "sampling not kept"
    if len(GIVEN) >= 2 and None in (g.extent, g.gpts, g.sampling): bad, why = True, "not fully defined"
""", GIVEN=given, DIMS=dims)


def _match(k1, k2):
    """Grid.match between two arbitrary valid 1-D grids without locks."""
    rp = None

    def fn(c):
        def mk(tag, kind):
            he, hg, hs = KINDS[kind]
            g = G.Grid.__new__(G.Grid)
            g._dimensions = 1
            g._endpoint = (False,)
            n = c.int(f"n{tag}", 1)
            d = c.real(f"d{tag}", 0, lo_strict=True)
            e = c.real(f"e{tag}", 0, lo_strict=True)
            if he and hg:
                c.assume(_z(e) == z3.ToReal(_z(n)) * _z(d))
            g._extent = (e,) if he else None
            g._gpts = (n,) if hg else None
            g._sampling = (d,) if hs else None
            g._lock_extent = g._lock_gpts = g._lock_sampling = False
            return g
        a, b = mk("a", k1), mk("b", k2)
        try:
            a.match(b)
        except RuntimeError:
            c.prove("match.no_raise_without_locks", False)
            return
        c.prove("match.self_consistent", _inv(a, (False,)))
        c.prove("match.other_consistent", _inv(b, (False,)))
        if a._gpts is not None and b._gpts is not None:
            c.prove("match.same_gpts", _same(a._gpts, b._gpts))
        if a._extent is not None and b._extent is not None:
            c.prove("match.same_extent", zand(*[sx.zclose(x, y, 1e-5, 1e-8) for x, y in zip(a._extent, b._extent)]))
    return fn


def cases(tier):
    q = tier == "quick"
    out = []
    for dims in (1,) if q else (1, 2):
        for kind in KINDS:
            for op in ("extent", "gpts", "sampling"):
                vec = []
                conc = None
                if dims == 1 and kind == "all":
                    conc = _step_conc(kind, op)
                    v0 = {"extent": 7.3, "gpts": 9, "sampling": 0.37}[op]
                    vec = [{"ep0": False, "le": False, "lg": False, "ls": False, "n0": 12, "d0": 0.25, "e0": 3.0, "v0": v0},
                           {"ep0": True, "le": False, "lg": False, "ls": False, "n0": 12, "d0": 0.25, "e0": 2.75, "v0": v0}]
                out.append(Case(f"step.{dims}d.{kind}.{op}", _step(kind, op, dims), setup=_setup, concrete=conc, vectors=vec,
                                max_paths=5000))
        for given in ("e", "g", "s", "eg", "es", "gs", "egs", ""):
            out.append(Case(f"init.{dims}d.{given or 'none'}", _init(given, dims), setup=_setup))
    if not q:
        for k1 in ("all", "e", "g", "s"):
            for k2 in ("all", "e", "g", "s", "none"):
                out.append(Case(f"match.{k1}.{k2}", _match(k1, k2), setup=_setup))
    return out
