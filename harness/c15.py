"""C15 Fourier interpolation and shifting obey their algebra."""
import numpy as np
import z3

from engine import sx, patch, snp
from engine.run import Case
from engine.replay import make
from engine.sx import SNum, SComplex, Polar, zand, _z, _real

PROPERTY = "C15"
BOUNDS = {
    "quick": "1-D mask sizes n1, n2 symbolic in 1..7 (all 49 pairs case-split); crop round trips for every shape pair up to 4x4 -> 5x5 with symbolic complex spectra; "
             "shift kernels on 3x4 and 4x4 grids with two symbolic shift vectors; exact DFT (axis lengths 1, 2, 4) for interpolate/shift with symbolic complex arrays",
    "thorough": "mask sizes up to 12; crop shapes up to 6x6 -> 7x7; kernels up to 5x6",
}
OUTSIDE = ["FFT values for axis lengths other than 1, 2, 4 (exact DFT model only there; elsewhere the FFT is not needed: masks, crops and kernels act on spectra)",
           "the Nyquist-bin convention for even -> even down-sampling (kept as the code's own convention)", "dtype handling, lazy arrays"]
STUBS = ["fft2/ifft2/fftn -> exact DFT by matrix product for lengths 1, 2, 4", "complex_exponential -> unit phasor", "np.fft.fftfreq -> exact j/(n d)"]
ASSUMPTIONS = []

import abtem.core.fft as F
import abtem.core.grid as G


def _setup():
    patch.patch(F)
    patch.patch(G)
    patch.set(G, "device_name_from_array_module", lambda xp: "cpu")
    patch.set(F, "complex_exponential", snp.complex_exponential)
    sh = patch.shim()
    patch.set(F, "fft2", lambda a, overwrite_x=False, **k: snp.exact_fftn(a, (-2, -1), False))
    patch.set(F, "ifft2", lambda a, overwrite_x=False, **k: snp.exact_fftn(a, (-2, -1), True))
    patch.set(F, "fftn", lambda a, overwrite_x=False, axes=None, **k: snp.exact_fftn(a, axes, False))
    patch.set(F, "ifftn", lambda a, overwrite_x=False, axes=None, **k: snp.exact_fftn(a, axes, True))


def _freq(i, n):
    return i if i < (n + 1) // 2 else i - n


def _masks(N):
    def fn(c):
        n1 = c.int("n1", 1, N)
        n2 = c.int("n2", 1, N)
        m1, m2 = F._fft_interpolation_masks_1d(n1, n2)
        a, b = int(n1), int(n2)
        i1 = [i for i in range(a) if m1[i]]
        i2 = [i for i in range(b) if m2[i]]
        c.output("kept", len(i1))
        c.prove("masks.keep_min_n_coefficients_in_both", len(i1) == min(a, b) and len(i2) == min(a, b) and len(m1) == a and len(m2) == b, replay=R_M)
        f1 = [_freq(i, a) for i in i1]
        f2 = [_freq(i, b) for i in i2]
        # the Nyquist coefficient of an even length has frequency -n/2 by convention; +n/2 is the same coefficient
        same = all(x == y or (abs(x) == abs(y) and (2 * abs(x) == a or 2 * abs(x) == b)) for x, y in zip(f1, f2))
        c.prove("masks.frequency_of_every_kept_coefficient_preserved", same, replay=R_M)
        lim = min(a, b)
        c.prove("masks.keep_exactly_the_lowest_frequencies", sorted(abs(x) for x in f1) == sorted(abs(_freq(i, lim)) for i in range(lim)), replay=R_M)
        c.canary("masks.canary", len(i1) == a)
    return fn


R_M = make("""
    from abtem.core.fft import _fft_interpolation_masks_1d
    a, b = int(V['n1']), int(V['n2'])
    m1, m2 = _fft_interpolation_masks_1d(a, b)
    fr = lambda i, n: i if i < (n + 1) // 2 else i - n
    f1 = [fr(i, a) for i in range(a) if m1[i]]; f2 = [fr(i, b) for i in range(b) if m2[i]]
    lim = min(a, b)
    ok = len(f1) == lim == len(f2) and all(x == y or (abs(x) == abs(y) and 2 * abs(x) in (a, b)) for x, y in zip(f1, f2)) and sorted(map(abs, f1)) == sorted(abs(fr(i, lim)) for i in range(lim))
    if not ok: bad, why = True, f"masks({a},{b}): kept frequencies {f1} -> {f2}"
""")


def _mconc(v):
    m1, m2 = F._fft_interpolation_masks_1d(int(v["n1"]), int(v["n2"]))
    return {"kept": int(m1.sum())}


def _crop(shape, up):
    rp = R_C(shape, up)

    def fn(c):
        A = sx.sym_array(c, "a", shape, kind="complex")
        big = F.fft_crop(A, up)
        back = F.fft_crop(big, shape)
        ok = [big.shape == tuple(up), back.shape == tuple(shape)]
        if all(ok):
            for i in np.ndindex(shape):
                ok.append(sx.zeq(back[i], A[i]))
            # every coefficient sits at its own frequency in the padded spectrum, everything else is zero
            placed = {}
            for i in np.ndindex(shape):
                j = tuple((_freq(i[d], shape[d]) % up[d]) for d in range(len(shape)))
                placed[j] = i
            for j in np.ndindex(tuple(up)):
                if j in placed:
                    ok.append(sx.zeq(big[j], A[placed[j]]))
                else:
                    ok.append(sx.zeq(SComplex.of(big[j]), SComplex(0, 0)))
        c.prove("crop.pad_places_coefficients_at_their_frequency_and_crop_back_is_identity", zand(*ok), replay=rp)
        c.canary("crop.canary", sx.zeq(big[tuple(0 for _ in up)], SComplex(0, 0)))
    return fn


def R_C(shape, up):
    return make("""
    from abtem.core.fft import fft_crop
    rng = np.random.default_rng(0)
    A = (rng.random(SHAPE) + 1j * rng.random(SHAPE)).astype(np.complex128)
    big = fft_crop(A, UP); back = fft_crop(big, SHAPE)
    if back.shape != A.shape or np.abs(back - A).max() > 1e-12: bad, why = True, f"crop({SHAPE}->{UP}->{SHAPE}) is not the identity"
    fr = lambda i, n: i if i < (n + 1) // 2 else i - n
    ref = np.zeros(UP, complex)
    for i in np.ndindex(SHAPE):
        ref[tuple(fr(i[d], SHAPE[d]) % UP[d] for d in range(len(SHAPE)))] = A[i]
    if np.abs(big - ref).max() > 1e-12: bad, why = True, "padded spectrum does not keep each coefficient at its frequency"
""", SHAPE=tuple(shape), UP=tuple(up))


def _kernel(shape):
    rp = R_K(shape)

    def fn(c):
        c.pc += sx.pi_axioms()
        s1 = (c.real("s1x"), c.real("s1y"))
        s2 = (c.real("s2x"), c.real("s2y"))
        K1 = F.fft_shift_kernel(sx.obj([[s1[0], s1[1]]]), shape)[0]
        K2 = F.fft_shift_kernel(sx.obj([[s2[0], s2[1]]]), shape)[0]
        K12 = F.fft_shift_kernel(sx.obj([[s1[0] + s2[0], s1[1] + s2[1]]]), shape)[0]
        for i in np.ndindex(shape):
            p = K1[i] * K2[i]
            if isinstance(p, Polar) and isinstance(K12[i], Polar):
                f = zand(p.amp == K12[i].amp, p.amp == 1, sx.turns_mod1_eq(p.tau, K12[i].tau))
            else:
                pc, qc = SComplex.of(p), SComplex.of(K12[i])
                f = sx.zeq(pc, qc)
            c.prove("shift_kernel.shifts_compose_additively", f, replay=rp, info=str(i))
            want = -(z3.RealVal(_freq(i[0], shape[0])) * _z(s1[0]) / shape[0] + z3.RealVal(_freq(i[1], shape[1])) * _z(s1[1]) / shape[1])
            c.prove("shift_kernel.is_exp_minus_2pi_i_k_s_over_n", sx.phasor_turns_eq(K1[i], want), replay=rp, info=str(i))
        # whole-pixel shifts: kernel has the phases of a roll, i.e. turn count k*s/n with integer s
        c.canary("shift_kernel.canary", sx.phasor_turns_eq(K1[(0, 1)], 0))
    return fn


def R_K(shape):
    return make("""
    from abtem.core.fft import fft_shift_kernel, fft_shift
    s1 = np.array([[float(V['s1x']), float(V['s1y'])]]); s2 = np.array([[float(V.get('s2x', 0.25)), float(V.get('s2y', -0.5))]])
    s1 = np.clip(s1, -20, 20); s2 = np.clip(s2, -20, 20)
    K1 = fft_shift_kernel(s1, SHAPE)[0]; K2 = fft_shift_kernel(s2, SHAPE)[0]; K12 = fft_shift_kernel(s1 + s2, SHAPE)[0]
    if np.abs(K1 * K2 - K12).max() > 1e-4: bad, why = True, f"kernel({s1}) kernel({s2}) != kernel(sum): {np.abs(K1 * K2 - K12).max()}"
    kx = np.fft.fftfreq(SHAPE[0]); ky = np.fft.fftfreq(SHAPE[1])
    ref = np.exp(-2j * np.pi * (kx[:, None] * s1[0, 0] + ky[None] * s1[0, 1]))
    if np.abs(K1 - ref).max() > 1e-4: bad, why = True, "kernel is not exp(-2 pi i k s)"
    rng = np.random.default_rng(0); A = (rng.random(SHAPE) + 1j * rng.random(SHAPE)).astype(np.complex64)
    two = fft_shift(fft_shift(A, s1), s2); one = fft_shift(A, s1 + s2)
    if np.abs(two - one).max() > 1e-4: bad, why = True, f"shift(s1) then shift(s2) != shift(s1+s2): {np.abs(two - one).max()}"
""", SHAPE=tuple(shape))


def _roll(shape):
    """exact DFT: shifting by whole pixels equals a periodic roll"""
    rp = R_R(shape)

    def fn(c):
        c.pc += sx.pi_axioms()
        A = sx.sym_array(c, "a", shape, kind="complex")
        p = c.int("px", -shape[0], shape[0])
        q = c.int("py", -shape[1], shape[1])
        pp, qq = int(p), int(q)
        out = F.fft_shift(A, sx.obj([[pp, qq]]))[0] if False else F.fft_shift(A, np.array([[pp, qq]], dtype=object))
        out = np.asarray(out).reshape(shape)
        ref = np.roll(np.asarray(A), (pp, qq), (0, 1))
        c.prove("fft_shift.whole_pixels_is_periodic_roll", zand(*[sx.zeq(SComplex.of(out[i]), SComplex.of(ref[i])) for i in np.ndindex(shape)]), replay=rp)
        c.canary("fft_shift.canary_identity", zand(*[sx.zeq(SComplex.of(out[i]), SComplex.of(A[i])) for i in np.ndindex(shape)]))
    return fn


def R_R(shape):
    return make("""
    from abtem.core.fft import fft_shift
    rng = np.random.default_rng(0); A = (rng.random(SHAPE) + 1j * rng.random(SHAPE)).astype(np.complex64)
    p, q = int(V['px']), int(V['py'])
    out = fft_shift(A, np.array([[p, q]]))[0] if fft_shift(A, np.array([[p, q]])).ndim == 3 else fft_shift(A, np.array([[p, q]]))
    if np.abs(out.reshape(SHAPE) - np.roll(A, (p, q), (0, 1))).max() > 1e-4: bad, why = True, f"fft_shift by ({p},{q}) pixels is not a roll"
""", SHAPE=tuple(shape))


def _interp(shape, new):
    rp = R_I(shape, new)

    def fn(c):
        A = sx.sym_array(c, "a", shape, kind="complex")
        up = F.fft_interpolate(A.copy(), new, normalization="values")
        n_old = shape[0] * shape[1]
        n_new = new[0] * new[1]
        mean_old = sum((SComplex.of(x) for x in A.ravel()), SComplex(0, 0)) / n_old
        mean_new = sum((SComplex.of(x) for x in np.asarray(up).ravel()), SComplex(0, 0)) / n_new
        c.prove("interpolate.values_normalization_preserves_mean", sx.zeq(mean_new, mean_old), replay=rp)
        if new[0] >= shape[0] and new[1] >= shape[1]:
            back = F.fft_interpolate(np.asarray(up).copy().view(snp.SymArr), shape, normalization="values")
            c.prove("interpolate.up_then_down_returns_original", zand(*[sx.zeq(SComplex.of(np.asarray(back)[i]), SComplex.of(A[i])) for i in np.ndindex(shape)]), replay=rp)
            ai = F.fft_interpolate(A.copy(), new, normalization="intensity")
            S_old = snp.exact_fftn(A, (-2, -1))
            S_new = snp.exact_fftn(np.asarray(ai), (-2, -1))
            tot = lambda S: sum((sx.cabs2(x) for x in np.asarray(S).ravel()), z3.RealVal(0))
            c.prove("interpolate.intensity_normalization_preserves_reciprocal_space_intensity", tot(S_new) == tot(S_old), replay=rp)
        c.canary("interpolate.canary", sx.zeq(SComplex.of(np.asarray(up).ravel()[0]), SComplex(0, 0)))
    return fn


def R_I(shape, new):
    return make("""
    from abtem.core.fft import fft_interpolate
    rng = np.random.default_rng(0); A = (rng.random(SHAPE) + 1j * rng.random(SHAPE)).astype(np.complex64)
    up = fft_interpolate(A.copy(), NEW, normalization='values')
    if abs(up.mean() - A.mean()) > 1e-5: bad, why = True, f"mean {A.mean()} -> {up.mean()}"
    if NEW[0] >= SHAPE[0] and NEW[1] >= SHAPE[1]:
        back = fft_interpolate(up.copy(), SHAPE, normalization='values')
        if np.abs(back - A).max() > 1e-5: bad, why = True, f"up then down differs by {np.abs(back - A).max()}"
        ai = fft_interpolate(A.copy(), NEW, normalization='intensity')
        if abs((np.abs(np.fft.fft2(ai)) ** 2).sum() - (np.abs(np.fft.fft2(A)) ** 2).sum()) > 1e-3: bad, why = True, "reciprocal-space intensity"
""", SHAPE=tuple(shape), NEW=tuple(new))


def cases(tier):
    q = tier == "quick"
    out = [Case("masks_1d", _masks(7 if q else 12), setup=_setup, concrete=_mconc, vectors=[{"n1": 4, "n2": 7}, {"n1": 7, "n2": 3}], max_paths=5000)]
    lim = 4 if q else 6
    for a in range(1, lim + 1):
        for b in range(1, lim + 1):
            for da, db in ((0, 0), (1, 0), (0, 1), (1, 1), (2, 1)) if q else ((0, 0), (1, 0), (0, 1), (1, 1), (2, 1), (1, 2), (3, 2)):
                if (a * b > 12 and q) or (da, db) == (0, 0) and (a, b) != (2, 3):
                    continue
                out.append(Case(f"crop.{a}x{b}.to.{a + da}x{b + db}", _crop((a, b), (a + da, b + db)), setup=_setup))
    for shape in ((3, 4), (4, 4)) if q else ((3, 4), (4, 4), (5, 6)):
        out.append(Case(f"kernel.{shape[0]}x{shape[1]}", _kernel(shape), setup=_setup, budget_s=240 if q else 1500))
    for shape in ((2, 4), (4, 2)) if q else ((2, 4), (4, 2), (4, 4)):
        out.append(Case(f"roll.{shape[0]}x{shape[1]}", _roll(shape), setup=_setup, max_paths=400))
    for shape, new in (((2, 2), (4, 4)), ((2, 4), (4, 4)), ((4, 4), (2, 2)), ((1, 2), (2, 4)), ((2, 2), (2, 2))):
        out.append(Case(f"interpolate.{shape[0]}x{shape[1]}.to.{new[0]}x{new[1]}", _interp(shape, new), setup=_setup, budget_s=240 if q else 1500))
    return out
