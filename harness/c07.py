"""C07 Thickness series are consistent with truncated simulations."""
import itertools

import numpy as np
import z3

from engine import sx, patch
from engine.run import Case
from engine.replay import make
from engine.sx import Tok, SNum, zand, _z
from harness import ms_common as M

PROPERTY = "C07"
BOUNDS = {
    "quick": "integer exit_planes k and num_slices n symbolic (1 <= n <= 7, 1 <= k <= 9, case-split by the solver); explicit exit-plane tuples: every subset for "
             "n <= 4 slices; slice thicknesses symbolic positive reals; measurement bookkeeping through the real multislice_and_detect with uninterpreted step/detect",
    "thorough": "n <= 12, k <= 14; subsets for n <= 6",
}
OUTSIDE = ["numerical values of a multislice step", "unsorted or out-of-range explicit exit_planes (not a documented input)"]
STUBS = ["conventional_multislice_step -> step(wave, slice_id)", "detector.detect -> det_d(wave)", "measurement allocation -> object dtype",
         "np.cumsum -> running sum over the reals"]
ASSUMPTIONS = ["explicit exit planes are strictly increasing, within [-1, n) and end at n-1 (what every producer in abTEM passes)"]

import abtem.multislice as MS
import abtem.potentials.iam as IAM


def _setup():
    M.setup()
    patch.patch(IAM, dtype=False)


def _validate(N, K):
    def fn(c):
        n = c.int("n", 1, N)
        k = c.int("k", 1, K)
        r = IAM._validate_exit_planes(k, n)
        nn = int(n)
        kk = int(k)
        r = tuple(r)
        c.output("count", len(r))
        conds = [_z(r[-1]) == nn - 1]
        conds += [zand(_z(a) >= -1, _z(a) < nn) for a in r]
        conds += [_z(a) < _z(b) for a, b in zip(r, r[1:])]
        c.prove("validate.sorted_in_range_ends_at_last_slice", zand(*conds), replay=R_V)
        if kk < nn:
            want = (-1,) + tuple(range(kk - 1, nn - 1, kk)) + (nn - 1,)
            c.prove("validate.entrance_then_every_k_slices", zand(len(r) == len(want), *[_z(a) == b for a, b in zip(r, want)]), replay=R_V)
        else:
            c.prove("validate.k_ge_n_is_exit_only", zand(len(r) == 1), replay=R_V)
        c.canary("validate.canary", len(r) == 2)
    return fn


R_V = make("""
    from abtem.potentials.iam import _validate_exit_planes
    n, k = int(V['n']), int(V['k'])
    r = tuple(_validate_exit_planes(k, n))
    want = ((-1,) + tuple(range(k - 1, n - 1, k)) + (n - 1,)) if k < n else (n - 1,)
    if r != want: bad, why = True, f"_validate_exit_planes({k}, {n}) = {r}, expected {want}"
""")


def _vconc(v):
    return {"count": len(IAM._validate_exit_planes(int(v["k"]), int(v["n"])))}


def _subsets(n):
    idx = list(range(-1, n - 1))
    for r in range(0, len(idx) + 1):
        for sub in itertools.combinations(idx, r):
            yield tuple(sub) + (n - 1,)


def _thick(n):
    def fn(c):
        t = tuple(c.real(f"t{i}", 0, lo_strict=True) for i in range(n))
        for planes in _subsets(n):
            pot = M.make_potential(1, n, planes, ensemble=False)
            pot._slice_thickness = t
            rp = R_T(n, planes)
            et = pot.exit_thicknesses
            ok = [len(et) == len(planes)]
            for j, p in enumerate(planes):
                ok.append(_z(et[j]) == sum((_z(x) for x in t[: p + 1]), z3.RealVal(0)))
            c.prove("thickness_axis.cumulative_thickness_of_each_exit_plane", zand(*ok), replay=rp, info=str(planes))
            after = pot._exit_plane_after
            c.prove("exit_plane_after_flags", zand(len(after) == n, *[bool(after[i]) == (i in planes) for i in range(n)]), replay=rp)
            ax = pot._get_exit_planes_axes_metadata()
            c.prove("thickness_axis.metadata_values", zand(len(ax.values) == len(planes), *[_z(a) == _z(b) for a, b in zip(ax.values, et)]), replay=rp)
            c.prove("num_exit_planes", pot.num_exit_planes == len(planes), replay=rp)
        if n > 1:
            c.canary("thickness.canary_uniform", _z(pot.exit_thicknesses[-1]) == n * _z(t[0]))
    return fn


def R_T(n, planes):
    return make("""
    from abtem.potentials.iam import PotentialArray
    t = tuple(float(V[f't{i}']) for i in range(N))
    pot = PotentialArray(np.zeros((N, 4, 4), np.float32), slice_thickness=t, sampling=0.5, exit_planes=PLANES)
    et = pot.exit_thicknesses
    want = [sum(t[:p + 1]) for p in PLANES]
    if len(et) != len(want) or any(abs(a - b) > 1e-6 * max(1.0, abs(b)) for a, b in zip(et, want)): bad, why = True, f"exit_thicknesses {et} expected {want} for thicknesses {t} planes {PLANES}"
    if [bool(x) for x in pot._exit_plane_after] != [i in PLANES for i in range(N)]: bad, why = True, "exit_plane_after flags"
    ax = pot._get_exit_planes_axes_metadata()
    if any(abs(a - b) > 1e-6 * max(1.0, abs(b)) for a, b in zip(ax.values, want)): bad, why = True, f"thickness axis {ax.values} expected {want}"
""", N=n, PLANES=planes)


def _series(nsl, ensemble, ncfg=1):
    def fn(c):
        specs = list(_subsets(nsl)) + list(range(1, nsl + 2))
        for spec in specs:
            pot = M.make_potential(ncfg, nsl, spec, ensemble=ensemble)
            planes = pot.exit_planes
            out = MS.multislice_and_detect(M.make_waves(), pot, [M.TagDetector(0)])
            rp = R_S(nsl, spec, ncfg if ensemble else 0)
            a = out[0].array
            lead = ((ncfg,) if ensemble else ())
            want_shape = lead + ((len(planes),) if len(planes) > 1 else ()) + (1, 1)
            ok = [a.shape == want_shape]
            if a.shape == want_shape:
                for k in range(ncfg):
                    for j, p in enumerate(planes):
                        got = a[((k,) if ensemble else ()) + ((j,) if len(planes) > 1 else ()) + (0, 0)]
                        ok.append(M.tok(got) == M.DET(z3.IntVal(0), M.spec_wave(k, p)) if isinstance(got, Tok) else z3.BoolVal(False))
            c.prove("series.plane_j_equals_truncated_run.last_equals_full.entrance_equals_incident", zand(*ok), replay=rp, info=str(spec))
            if len(planes) > 1:
                axes = out[0].ensemble_axes_metadata
                th = [x for x in axes if type(x).__name__ == "ThicknessAxis"]
                c.prove("series.thickness_axis_present", zand(len(th) == 1, len(th[0].values) == len(planes) if th else False), replay=rp)
        c.canary("series.canary", M.spec_wave(0, 0) == M.W0)
    return fn


def R_S(nsl, spec, ncfg=0):
    return make("""
    import abtem
    from abtem.core.axes import FrozenPhononsAxis
    from abtem.potentials.iam import PotentialArray
    rng = np.random.default_rng(1)
    arrs = (rng.random((max(NCFG, 1), NSL, 8, 8)) * 30).astype(np.float32)
    t = tuple(0.5 + 0.25 * i for i in range(NSL))
    if NCFG:
        pot = PotentialArray(arrs, slice_thickness=t, sampling=0.2, exit_planes=SPEC, ensemble_axes_metadata=[FrozenPhononsAxis()])
    else:
        pot = PotentialArray(arrs[0], slice_thickness=t, sampling=0.2, exit_planes=SPEC)
    planes = pot.exit_planes
    w = abtem.PlaneWave(energy=80e3)
    res = w.multislice(pot, lazy=False)
    full = np.asarray(res.array).reshape((max(NCFG, 1), len(planes), 8, 8))
    for k in range(max(NCFG, 1)):
        arr = arrs[k]
        for j, p in enumerate(planes):
            if p == -1:
                ref = abtem.PlaneWave(energy=80e3, gpts=(8, 8), sampling=0.2).build(lazy=False).array
            else:
                ref = w.multislice(PotentialArray(arr[:p + 1], slice_thickness=t[:p + 1], sampling=0.2), lazy=False).array
            err = np.abs(full[k, j] - ref).max()
            if err > 1e-5: bad, why = True, f"configuration {k}, exit plane {p}: differs from the truncated simulation by {err}"
    if len(planes) > 1:
        th = [a for a in res.ensemble_axes_metadata if type(a).__name__ == 'ThicknessAxis'][0].values
        want = [sum(t[:p + 1]) for p in planes]
        if any(abs(a - b) > 1e-6 for a, b in zip(th, want)): bad, why = True, f"thickness axis {th} expected {want}"
""", NSL=nsl, SPEC=spec, NCFG=ncfg)


def cases(tier):
    q = tier == "quick"
    out = [Case("validate_exit_planes", _validate(7 if q else 12, 9 if q else 14), setup=_setup, concrete=_vconc,
                vectors=[{"n": 7, "k": 3}, {"n": 4, "k": 4}, {"n": 5, "k": 1}], max_paths=5000)]
    for n in (1, 2, 3, 4) if q else (1, 2, 3, 4, 5, 6):
        out.append(Case(f"exit_thicknesses.n{n}", _thick(n), setup=_setup))
    for n in (1, 2, 3, 4) if q else (1, 2, 3, 4, 5, 6):
        out.append(Case(f"series.n{n}", _series(n, False), setup=_setup))
    out.append(Case("series.ensemble.n3", _series(3, True, 2), setup=_setup))
    return out
