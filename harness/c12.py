"""C12 Detectors measure consistent integrated intensities (decided per pixel: every route assigns each pixel to the same region)."""
import numpy as np
import z3

from engine import sx, patch, snp
from engine.run import Case
from engine.replay import make
from engine.sx import SNum, SBool, zand, zor, _z, _zb, _real

PROPERTY = "C12"
BOUNDS = {
    "quick": "pattern grids (3,2), (2,3), (4,3); angular sampling (1,1) and (1,3/2) mrad as exact constants for the binning cases ; inner/outer/intermediate limits symbolic reals; "
             "radial bins 1..3, azimuthal bins 1..2 (azimuth abstracted); FlexibleAnnularDetector: step, inner, outer symbolic with at most 4 bins (case-split)",
    "thorough": "grids up to (5,4); radial bins 1..5, azimuthal 1..4; flexible detector up to 8 bins",
}
OUTSIDE = ["the intensities themselves (sums over identical pixel sets are identical)", "grouping of pixel labels by label_to_index (numpy argsort/searchsorted)",
           "detector offset / rotation different from zero", "float truncation of bin indices"]
STUBS = ["np.sqrt -> exact sqrt model", "np.arctan2 -> arbitrary angle in [-pi, pi] (no relation to the pixel: obligations on azimuthal bins hold for every angle)",
         "int arrays -> truncating object arrays", "waves -> object exposing cutoff_angles only"]
ASSUMPTIONS = ["0 <= inner < outer", "angular sampling > 0", "step_size > 0"]

import abtem.measurements as MM
import abtem.detectors as DT
import abtem.core.grid as G
import math


def _abs_arctan2(y, x):
    yy, xx = np.broadcast_arrays(snp._oarr(y), snp._oarr(x))
    c = sx.Ctx.cur
    out = np.empty(yy.shape, dtype=object)
    for i in np.ndindex(yy.shape):
        t = c.new_real("phi")
        c.pc += [t >= -z3.RealVal(sx.fractions.Fraction(math.pi)), t <= z3.RealVal(sx.fractions.Fraction(math.pi))]
        out[i] = SNum(t)
    return out.view(snp.SymArr)


def _setup():
    sh = snp.make_shim(pi=False, arctan2=_abs_arctan2)
    patch.patch(MM, shim_obj=sh, dtype=False)
    patch.patch(G, shim_obj=sh)
    patch.set(G, "device_name_from_array_module", lambda xp: "cpu")
    patch.patch(DT, shim_obj=sh, dtype=False)


def _alpha2(gpts, s, i, j):
    fi = i if i < (gpts[0] + 1) // 2 else i - gpts[0]
    fj = j if j < (gpts[1] + 1) // 2 else j - gpts[1]
    return (fi * _z(s[0])) * (fi * _z(s[0])) + (fj * _z(s[1])) * (fj * _z(s[1]))


SAMPLINGS = {"iso": (1.0, 1.0), "aniso": (1.0, 1.5)}


def _samp(c, which):
    """angular sampling: concrete per case (symbolic sampling makes every pixel angle a product of unknowns and the
    non-linear queries do not finish; limits stay symbolic, so every position of inner/outer relative to the pixels is covered)"""
    sxv, syv = SAMPLINGS[which]
    a, b = c.real("sx"), c.real("sy")
    c.assume(_z(a) == _z(sxv)); c.assume(_z(b) == _z(syv))
    # exact rational constants (not Python floats, whose 1/s/n would round before reaching the solver)
    return (SNum(z3.RealVal(sx.fractions.Fraction(sxv))), SNum(z3.RealVal(sx.fractions.Fraction(syv))))


def _bins(gpts, nr, na, which="aniso"):
    rp = R_BINS(gpts, nr, na)

    def fn(c):
        s = _samp(c, which)
        inner = c.real("inner", 0)
        outer = c.real("outer", 0)
        c.assume(inner < outer)
        mask = MM._annular_detector_mask(gpts, s, inner, outer)
        bins = MM._polar_detector_bins(gpts, s, inner, outer, nr, na)
        w = (_z(outer) - _z(inner)) / nr
        okA, okB, okC, okD = [], [], [], []
        for i in range(gpts[0]):
            for j in range(gpts[1]):
                a2 = _alpha2(gpts, s, i, j)
                inside = z3.And(a2 >= _z(inner) * _z(inner), a2 < _z(outer) * _z(outer))
                m = _zb(mask[i, j]) if isinstance(mask[i, j], SBool) else z3.BoolVal(bool(mask[i, j]))
                b = _z(bins[i, j])
                okA.append(m == inside)
                okB.append((b >= 0) == m)
                r = sx._pyfloordiv(b, z3.IntVal(na)) if b.is_int() else z3.ToInt(b / na)
                lo = _z(inner) + z3.ToReal(r) * w
                hi = _z(inner) + z3.ToReal(r + 1) * w
                okC.append(z3.Implies(b >= 0, z3.And(r >= 0, r < nr, a2 >= lo * lo, a2 < hi * hi)))
                okD.append(z3.Implies(b >= 0, z3.And(b - r * na >= 0, b - r * na < na)))
        c.prove("annular_mask.pixel_inside_iff_inner_le_alpha_lt_outer", zand(*okA), replay=rp)
        c.prove("polar_bins.valid_iff_in_annular_mask", zand(*okB), replay=rp)
        c.prove("polar_bins.radial_bin_covers_its_stated_range", zand(*okC), replay=rp)
        c.prove("polar_bins.azimuthal_bin_in_range", zand(*okD), replay=rp)
        c.canary("canary.closed_upper_edge", zand(*[(_zb(mask[i, j]) if isinstance(mask[i, j], SBool) else z3.BoolVal(bool(mask[i, j]))) ==
                                                    z3.And(_alpha2(gpts, s, i, j) >= _z(inner) * _z(inner), _alpha2(gpts, s, i, j) <= _z(outer) * _z(outer))
                                                    for i in range(gpts[0]) for j in range(gpts[1])]))
    return fn


def R_BINS(gpts, nr, na):
    return make("""
    from abtem.measurements import _annular_detector_mask, _polar_detector_bins
    s = (float(V['sx']), float(V['sy'])); inner, outer = float(V['inner']), float(V['outer'])
    mask = np.asarray(_annular_detector_mask(GPTS, s, inner, outer)); bins = np.asarray(_polar_detector_bins(GPTS, s, inner, outer, NR, NA))
    fx = np.fft.fftfreq(GPTS[0], 1 / GPTS[0]) * s[0]; fy = np.fft.fftfreq(GPTS[1], 1 / GPTS[1]) * s[1]
    alpha = np.sqrt(fx[:, None] ** 2 + fy[None] ** 2)
    eps = 1e-6 * max(outer, 1e-300)
    near = (np.abs(alpha - inner) < eps) | (np.abs(alpha - outer) < eps)
    inside = (alpha >= inner) & (alpha < outer)
    if np.any((mask != inside) & ~near): bad, why = True, f"annular mask {mask.tolist()} vs inner <= alpha < outer {inside.tolist()}"
    if np.any(((bins >= 0) != mask) & ~near): bad, why = True, f"polar bins {bins.tolist()} valid set differs from annular mask {mask.tolist()}"
    w = (outer - inner) / NR
    r = bins // NA
    edge = np.abs(((alpha - inner) / w) - np.round((alpha - inner) / w)) < 1e-6
    v = (bins >= 0) & ~near & ~edge
    if np.any(v & ((r < 0) | (r >= NR) | (alpha < inner + r * w) | (alpha >= inner + (r + 1) * w))): bad, why = True, f"radial bins {r.tolist()} do not cover alpha {alpha.tolist()} with width {w}"
""", GPTS=tuple(gpts), NR=nr, NA=na)


def _additive(gpts, which="aniso"):
    rp = R_ADD(gpts)

    def fn(c):
        s = _samp(c, which)
        a = c.real("a", 0); b = c.real("b", 0); d = c.real("d", 0)
        c.assume(a < b); c.assume(b < d)
        m1 = MM._annular_detector_mask(gpts, s, a, b)
        m2 = MM._annular_detector_mask(gpts, s, b, d)
        m3 = MM._annular_detector_mask(gpts, s, a, d)
        tb = lambda x: _zb(x) if isinstance(x, SBool) else z3.BoolVal(bool(x))
        ok = []
        for i in range(gpts[0]):
            for j in range(gpts[1]):
                x, y, z = tb(m1[i, j]), tb(m2[i, j]), tb(m3[i, j])
                ok += [z3.Not(z3.And(x, y)), z == z3.Or(x, y)]
        c.prove("annular.adjacent_ranges_disjoint_and_union_is_larger_annulus", zand(*ok), replay=rp)
        c.canary("annular.canary", zand(*[tb(m1[i, j]) == tb(m3[i, j]) for i in range(gpts[0]) for j in range(gpts[1])]))
    return fn


def R_ADD(gpts):
    return make("""
    from abtem.measurements import _annular_detector_mask
    s = (float(V['sx']), float(V['sy'])); a, b, d = float(V['a']), float(V['b']), float(V['d'])
    m1, m2, m3 = (np.asarray(_annular_detector_mask(GPTS, s, lo, hi)) for lo, hi in ((a, b), (b, d), (a, d)))
    if np.any(m1 & m2) or np.any(m3 != (m1 | m2)): bad, why = True, f"masks [{a},{b}) {m1.tolist()} and [{b},{d}) {m2.tolist()} vs [{a},{d}) {m3.tolist()}"
""", GPTS=tuple(gpts))


class _W:
    def __init__(self, cut):
        self.cutoff_angles = (cut, cut)


def _flexible(NB):
    def fn(c):
        step = c.real("step", 0, lo_strict=True)
        inner = c.real("inner", 0)
        outer = c.real("outer", 0)
        c.assume(inner < outer)
        c.assume(_z(outer) - _z(inner) <= (NB + z3.RealVal("1/2")) * _z(step))
        use_default = bool(c.bool("outer_from_waves"))
        det = DT.FlexibleAnnularDetector(step_size=step, inner=inner, outer=None if use_default else outer)
        w = _W(outer)
        det._match_waves(w)  # what detect() does first
        lo, hi = det.angular_limits(w)
        nb = det.nbins_radial
        md = det._out_base_axes_metadata(w)[0][0]
        shape = det._out_base_shape(w)[0]
        c.output("nb", nb)
        c.output("hi", hi)
        # what polar_binning does with these limits: bins of width (hi-lo)/nb starting at lo
        c.prove("flexible.bin_width_equals_metadata_sampling", z3.Implies(_z(nb) >= 1, (_z(hi) - _z(lo)) == z3.ToReal(_z(nb)) * _z(md.sampling)), replay=R_F)
        c.prove("flexible.metadata_offset_is_inner_and_sampling_is_step", zand(_z(md.offset) == _z(inner), _z(md.sampling) == _z(step), _z(lo) == _z(inner)), replay=R_F)
        c.prove("flexible.covers_all_whole_steps_inside_outer", zand(_z(hi) <= _z(outer), _z(outer) - _z(hi) < _z(step), _z(nb) >= 0), replay=R_F)
        c.prove("flexible.shape", zand(_z(shape[0]) == _z(nb), shape[1] == 1), replay=R_F)
        c.canary("flexible.canary_outer_always_reached", _z(hi) == _z(outer))
    return fn


R_F = make("""
    import abtem
    from abtem.core.energy import energy2wavelength
    step, inner, outer = float(V['step']), float(V['inner']), float(V['outer'])
    energy = 100e3; lam = energy2wavelength(energy)
    ang = step / 6.0                       # angular sampling of the replay wave [mrad]: six pixels per bin
    extent = lam * 1e3 / ang
    n = int(np.ceil(2 * outer / ang * 1.6)) + 8
    if n > 1400:
        print('NOT-REPRODUCED (replay grid too large)'); sys.exit(0)
    p = abtem.Probe(energy=energy, semiangle_cutoff=outer * 1.3, extent=extent, gpts=n, soft=False)
    w = p.build(scan=abtem.CustomScan([[0.0, 0.0]]), lazy=False)
    det = abtem.FlexibleAnnularDetector(step_size=step, inner=inner, outer=None if V.get('outer_from_waves') else outer)
    if V.get('outer_from_waves'):
        print('NOT-REPRODUCED (default outer depends on the replay grid)'); sys.exit(0)
    m = det.detect(w)
    nb = m.shape[-2]
    ax = m.base_axes_metadata[0]
    for k in range(nb):
        lo, hi = ax.offset + k * ax.sampling, ax.offset + (k + 1) * ax.sampling
        ref = float(np.asarray(abtem.AnnularDetector(lo, hi).detect(w).array).ravel()[0])
        got = float(np.asarray(m.array)[..., k, 0].ravel()[0])
        if abs(ref - got) > 1e-4 * max(abs(ref), 1e-8) + 1e-9: bad, why = True, f"bin {k}: metadata says [{lo}, {hi}) (AnnularDetector gives {ref}) but the bin holds {got}"
    tot = float(np.asarray(m.array).sum()); want = float(np.asarray(abtem.AnnularDetector(inner, inner + nb * step).detect(w).array).ravel()[0])
    if nb and abs(tot - want) > 1e-4 * max(abs(want), 1e-8) + 1e-9: bad, why = True, f"sum of bins {tot} != AnnularDetector({inner}, {inner + nb * step}) = {want}"
""")


def _fconc(v):
    det = DT.FlexibleAnnularDetector(step_size=v["step"], inner=v["inner"], outer=v["outer"])
    w = _W(v["outer"])
    return {"nb": det.nbins_radial, "hi": det.angular_limits(w)[1]}


def _segmented(nr, na):
    def fn(c):
        inner = c.real("inner", 0); outer = c.real("outer", 0)
        c.assume(inner < outer)
        det = DT.SegmentedDetector(inner=inner, outer=outer, nbins_radial=nr, nbins_azimuthal=na)
        md = det._out_base_axes_metadata(_W(outer))[0]
        lo, hi = det.angular_limits(_W(outer))
        c.prove("segmented.radial_metadata_matches_binning", zand(_z(md[0].sampling) * nr == _z(hi) - _z(lo), _z(md[0].offset) == _z(inner),
                                                                   _z(lo) == _z(inner), _z(hi) == _z(outer)), replay=None)
        c.prove("segmented.azimuthal_metadata", sx.zclose(SNum(_real(_z(md[1].sampling)) * na), 2 * math.pi, rtol=1e-12), replay=None)
        c.prove("segmented.shape", det._out_base_shape(_W(outer))[0] == (nr, na), replay=None)
    return fn


def cases(tier):
    q = tier == "quick"
    out = []
    grids = [(3, 2), (2, 3), (4, 3)] if q else [(3, 2), (2, 3), (4, 3), (3, 3), (5, 4)]
    for g in grids:
        for nr, na in ([(1, 1), (2, 1), (3, 2)] if q else [(1, 1), (2, 1), (3, 2), (4, 3), (5, 4)]):
            if q and g == (4, 3) and nr > 2:
                continue
            for which in SAMPLINGS:
                out.append(Case(f"bins.{g[0]}x{g[1]}.r{nr}a{na}.{which}", _bins(g, nr, na, which), setup=_setup, max_paths=4000,
                                budget_s=240 if q else 1800))
        for which in SAMPLINGS:
            out.append(Case(f"additive.{g[0]}x{g[1]}.{which}", _additive(g, which), setup=_setup))
    out.append(Case("flexible", _flexible(4 if q else 8), setup=_setup, concrete=_fconc, vectors=[{"step": 1.0, "inner": 0.0, "outer": 10.5 if False else 3.5, "outer_from_waves": False},
                                                                                              {"step": 0.7, "inner": 2.0, "outer": 4.2, "outer_from_waves": False}]))
    for nr, na in ((1, 1), (2, 4), (3, 2)):
        out.append(Case(f"segmented.r{nr}a{na}", _segmented(nr, na), setup=_setup))
    return out
