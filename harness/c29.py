"""C29 Array-object structural operations keep data and metadata aligned."""
import itertools

import numpy as np
import z3

from engine import sx, patch, snp
from engine.run import Case
from engine.replay import make
from engine.sx import SNum, zand, _z

PROPERTY = "C29"
BOUNDS = {
    "quick": "Images with ensemble shape (3, 2) x base (2, 2): every index expression made of up to 4 items out of {int, slice, None} (integers and slice bounds symbolic, "
             "case-split by the solver), including expressions with too many indices; ordinal axis values symbolic; expand_dims/squeeze/mean/sum over every axis argument in range; concatenate/stack of 2, 3 and 4 distinct operands (lengths 1, 2, 1, 2) with symbolic NonLinearAxis / ThicknessAxis values",
    "thorough": "ensemble shape (3, 2, 2); index expressions of up to 5 items; slices with steps",
}
OUTSIDE = ["arithmetic and reduction VALUES (numpy itself)", "lazy (dask) objects", "index arrays / masks on array objects (OrdinalAxis masks are decided in C35)"]
STUBS = []
ASSUMPTIONS = ["integer indices within range; slice bounds in [-3, 3] (one slice), [-2, 2] (two slices), [-1, 1] (three)"]

import abtem.array as A
import abtem.core.axes as AX
from abtem.measurements import Images
from abtem.core.axes import OrdinalAxis, ScanAxis, NonLinearAxis

ENS = (3, 2)


def _setup():
    patch.set(A, "isinstance", sx.sisinstance)
    patch.patch(AX)


def _mk(c, ens=ENS):
    arr = np.arange(int(np.prod(ens)) * 4, dtype=np.float32).reshape(ens + (2, 2))
    vals = tuple(c.real(f"v{i}") for i in range(ens[0]))
    axes = [NonLinearAxis(label="p", units="mrad", values=vals)] + [ScanAxis(label=f"s{k}", sampling=0.5, offset=1.0) for k in range(1, len(ens))]
    return Images(arr, sampling=0.1, ensemble_axes_metadata=axes, metadata={"m": 1}), arr, vals


def _index(struct, ens=ENS):
    rp = R_IDX(struct, ens)

    def fn(c):
        im, arr, vals = _mk(c, ens)
        items, conc, pos = [], [], 0
        for k, kind in enumerate(struct):
            if kind == "n":
                items.append(None); conc.append(None)
                continue
            n = ens[pos] if pos < len(ens) else 2  # beyond the ensemble axes: base axes of size 2
            if kind == "i":
                v = c.int(f"i{k}", -n, n - 1)
                items.append(v); conc.append(int(v))
            else:
                R = 3 if struct.count("s") == 1 else 2 if struct.count("s") == 2 else 1
                if sum(1 for x in struct if x != "n") > len(ens):
                    R = 1  # refused expressions: the bounds do not matter
                a = c.int(f"a{k}", -R, R); b = c.int(f"b{k}", -R, R)
                sl = slice(int(a), int(b))
                items.append(sl); conc.append(sl)
            pos += 1
        n_idx = sum(1 for x in struct if x != "n")
        tup = tuple(conc)
        try:
            out = im[tup if len(tup) != 1 else tup[0]]
        except RuntimeError:
            c.prove("index.refuses_only_base_axes", n_idx > len(ens), replay=rp)
            return
        except (IndexError, ValueError) as ex:
            c.prove("index.no_other_exception", False, replay=rp, info=repr(ex))
            return
        c.prove("index.base_axes_are_refused", n_idx <= len(ens), replay=rp)
        if n_idx > len(ens):
            return
        ref = arr[tup]
        c.prove("index.same_values_as_numpy", out.array.shape == ref.shape and bool(np.array_equal(np.asarray(out.array), ref)), replay=rp)
        c.prove("index.one_metadata_entry_per_dimension", len(out.ensemble_axes_metadata) == out.array.ndim - 2 and len(out.axes_metadata) == out.array.ndim, replay=rp)
        # metadata of the first ensemble axis follows the selection
        first = None
        p = 0
        for k, kind in enumerate(struct):
            if kind != "n":
                first = (k, kind)
                break
        if first is not None:
            k, kind = first
            new_pos = sum(1 for x in struct[:k])  # position of this axis among the output axes (Nones before it add axes)
            if kind == "i":
                c.prove("index.item_metadata_carried", z3.And("p" in out.metadata, _z(out.metadata.get("p", 0)) == _z(vals[conc[k]])), replay=rp)
                c.prove("index.other_metadata_kept", out.metadata.get("m") == 1, replay=rp)
            else:
                ax = out.ensemble_axes_metadata[new_pos]
                want = vals[conc[k]]
                c.prove("index.sliced_axis_lists_selected_values", zand(len(ax.values) == len(want), *[_z(x) == _z(y) for x, y in zip(ax.values, want)]), replay=rp)
        else:
            c.prove("index.first_axis_untouched", True, replay=rp)
    return fn


def R_IDX(struct, ens):
    return make("""
    from abtem.measurements import Images
    from abtem.core.axes import ScanAxis, NonLinearAxis
    arr = np.arange(int(np.prod(ENS)) * 4, dtype=np.float32).reshape(tuple(ENS) + (2, 2))
    vals = tuple(float(V.get(f'v{i}', i + 0.5)) for i in range(ENS[0]))
    axes = [NonLinearAxis(label='p', units='mrad', values=vals)] + [ScanAxis(label=f's{k}', sampling=0.5, offset=1.0) for k in range(1, len(ENS))]
    im = Images(arr, sampling=0.1, ensemble_axes_metadata=axes, metadata={'m': 1})
    tup = tuple(None if kind == 'n' else int(V[f'i{k}']) if kind == 'i' else slice(int(V[f'a{k}']), int(V[f'b{k}'])) for k, kind in enumerate(STRUCT))
    n_idx = sum(1 for x in STRUCT if x != 'n')
    try:
        out = im[tup if len(tup) != 1 else tup[0]]
        if n_idx > len(ENS): bad, why = True, f"images[{tup}] indexes base axes but was accepted: shape {out.shape}"
        else:
            ref = arr[tup]
            if out.array.shape != ref.shape or not np.array_equal(np.asarray(out.array), ref): bad, why = True, f"images[{tup}] values differ from numpy"
            if len(out.ensemble_axes_metadata) != out.array.ndim - 2: bad, why = True, f"images[{tup}]: {len(out.ensemble_axes_metadata)} ensemble axes metadata for {out.array.ndim - 2} ensemble dims"
            for k, kind in enumerate(STRUCT):
                if kind == 'n': continue
                if kind == 'i' and out.metadata.get('p') != vals[tup[k]]: bad, why = True, f"item metadata {out.metadata} for index {tup[k]}"
                if kind == 's' and tuple(out.ensemble_axes_metadata[k].values) != vals[tup[k]]: bad, why = True, f"sliced axis values {out.ensemble_axes_metadata[k].values} expected {vals[tup[k]]}"
                break
    except RuntimeError as ex:
        if n_idx <= len(ENS): bad, why = True, f"images[{tup}] raised {ex!r}"
""", STRUCT=tuple(struct), ENS=tuple(ens))


def _structural(c):
    im, arr, vals = _mk(c)
    nd = arr.ndim
    ok = []
    for ax in range(0, len(ENS) + 1):
        e = im.expand_dims(axis=ax)
        ok.append(e.array.shape == np.expand_dims(arr, ax).shape and len(e.ensemble_axes_metadata) == e.array.ndim - 2)
        s = e.squeeze()
        ok.append(s.array.shape == arr.shape and len(s.ensemble_axes_metadata) == 2)
        ok.append(type(e.ensemble_axes_metadata[ax]).__name__ == "UnknownAxis")
    c.prove("expand_dims_squeeze.one_metadata_entry_per_dimension", all(ok), replay=R_ST)
    red = []
    for ax in range(-nd, nd):
        for name in ("mean", "sum"):
            base = (ax % nd) >= len(ENS)
            try:
                r = getattr(im, name)(axis=ax)
                good = (not base) and r.array.shape == getattr(np, name)(arr, axis=ax).shape and len(r.ensemble_axes_metadata) == r.array.ndim - 2 \
                    and bool(np.allclose(np.asarray(r.array), getattr(np, name)(arr, axis=ax)))
                if good and (ax % nd) == 1:
                    good = zand(*[_z(x) == _z(y) for x, y in zip(r.ensemble_axes_metadata[0].values, vals)])
                red.append(good)
            except RuntimeError:
                red.append(base)
    c.prove("reductions.refuse_base_axes_and_drop_exactly_the_reduced_axis", zand(*red), replay=R_ST)
    st = A.stack([im, im], axis_metadata=OrdinalAxis(label="k", values=(0, 1)), axis=0)
    cat = A.concatenate([im, im], axis=0)
    c.prove("stack.metadata_per_dimension", st.array.shape == (2,) + arr.shape and len(st.ensemble_axes_metadata) == 3, replay=R_ST)
    c.prove("concatenate.values_concatenated", zand(cat.array.shape == (6, 2, 2, 2), len(cat.ensemble_axes_metadata) == 2,
                                                     *[_z(x) == _z(y) for x, y in zip(cat.ensemble_axes_metadata[0].values, vals + vals)]), replay=R_ST)


R_ST = make("""
    import abtem
    from abtem.measurements import Images
    from abtem.core.axes import ScanAxis, NonLinearAxis, OrdinalAxis
    from abtem.array import stack, concatenate
    arr = np.arange(24, dtype=np.float32).reshape(3, 2, 2, 2)
    vals = (0.5, 1.5, 2.5)
    im = Images(arr, sampling=0.1, ensemble_axes_metadata=[NonLinearAxis(label='p', units='mrad', values=vals), ScanAxis(label='s1', sampling=0.5, offset=1.0)])
    for ax in range(3):
        e = im.expand_dims(axis=ax)
        if e.array.shape != np.expand_dims(arr, ax).shape or len(e.ensemble_axes_metadata) != 3 or e.squeeze().array.shape != arr.shape: bad, why = True, f"expand_dims({ax})"
    for ax in range(-4, 4):
        base = (ax % 4) >= 2
        try:
            r = im.mean(axis=ax)
            if base or len(r.ensemble_axes_metadata) != r.array.ndim - 2 or not np.allclose(r.array, arr.mean(axis=ax)): bad, why = True, f"mean(axis={ax})"
        except RuntimeError:
            if not base: bad, why = True, f"mean(axis={ax}) raised"
    cat = concatenate([im, im], axis=0)
    if tuple(cat.ensemble_axes_metadata[0].values) != vals + vals: bad, why = True, "concatenate values"
""")


def _concat(k, axis_kind):
    """concatenate / stack of k DISTINCT operands: joined axis values and data blocks follow the operand order"""
    rp = R_CAT(k, axis_kind)

    def fn(c):
        ops, allvals, blocks = [], [], []
        for j in range(k):
            n = 1 + (j % 2)  # operand lengths 1, 2, 1, 2
            arr = (100 * (j + 1) + np.arange(n * 4, dtype=np.float32)).reshape(n, 2, 2)
            vals = tuple(c.real(f"v{j}_{i}") for i in range(n))
            if axis_kind == "nonlinear":
                ax = NonLinearAxis(label="p", units="mrad", values=vals)
            else:
                from abtem.core.axes import ThicknessAxis
                ax = ThicknessAxis(label="z", values=vals)
            ops.append(Images(arr, sampling=0.1, ensemble_axes_metadata=[ax], metadata={"m": j}))
            allvals += list(vals)
            blocks.append(arr)
        cat = A.concatenate(ops, axis=0)
        want = np.concatenate(blocks, axis=0)
        got_vals = tuple(cat.ensemble_axes_metadata[0].values)
        c.prove("concatenate.data_blocks_in_operand_order", bool(np.asarray(cat.array).shape == want.shape and np.array_equal(np.asarray(cat.array), want)), replay=rp)
        c.prove("concatenate.axis_values_in_operand_order", zand(len(got_vals) == len(allvals), *[_z(x) == _z(y) for x, y in zip(got_vals, allvals)]), replay=rp)
        same_len = [o for o in ops if o.shape[0] == 1]
        if len(same_len) >= 2:
            st = A.stack(same_len, axis_metadata=OrdinalAxis(label="k", values=tuple(range(len(same_len)))), axis=0)
            c.prove("stack.blocks_in_operand_order", bool(np.array_equal(np.asarray(st.array), np.stack([np.asarray(o.array) for o in same_len]))), replay=rp)
        c.canary("concatenate.canary_sorted", zand(*[_z(a) <= _z(b) for a, b in zip(got_vals, got_vals[1:])]))
    return fn


def R_CAT(k, axis_kind):
    return make("""
    import abtem
    from abtem.measurements import Images
    from abtem.core.axes import NonLinearAxis, ThicknessAxis
    from abtem.array import concatenate
    ops, allvals, blocks = [], [], []
    for j in range(K):
        n = 1 + (j % 2)
        arr = (100 * (j + 1) + np.arange(n * 4, dtype=np.float32)).reshape(n, 2, 2)
        vals = tuple(float(V.get(f'v{j}_{i}', 10 * j + i)) for i in range(n))
        if len(set(allvals + list(vals))) != len(allvals) + n: vals = tuple(10.0 * j + i + 0.5 for i in range(n))
        ax = NonLinearAxis(label='p', units='mrad', values=vals) if KIND == 'nonlinear' else ThicknessAxis(label='z', values=vals)
        ops.append(Images(arr, sampling=0.1, ensemble_axes_metadata=[ax])); allvals += list(vals); blocks.append(arr)
    cat = concatenate(ops, axis=0)
    if not np.array_equal(np.asarray(cat.array), np.concatenate(blocks)): bad, why = True, "concatenate: data blocks not in operand order"
    if tuple(cat.ensemble_axes_metadata[0].values) != tuple(allvals): bad, why = True, f"concatenate of {K} operands: axis values {tuple(cat.ensemble_axes_metadata[0].values)} but the data are in the order {tuple(allvals)}"
""", K=k, KIND=axis_kind)


def cases(tier):
    q = tier == "quick"
    out = []
    kinds = "isn"
    maxlen = 4 if q else 5
    for L in range(1, maxlen + 1):
        for struct in itertools.product(kinds, repeat=L):
            n_idx = sum(1 for x in struct if x != "n")
            if n_idx > len(ENS) + 1 or struct.count("n") > 2 or n_idx == 0:
                continue
            if q and L == 4 and struct.count("s") > 1:
                continue
            out.append(Case("index." + "".join(struct), _index(struct), setup=_setup, max_paths=6000, budget_s=240 if q else 1500))
    out.append(Case("structural", _structural, setup=_setup))
    for k in (2, 3, 4) if q else (2, 3, 4, 5):
        for kind in ("nonlinear", "thickness"):
            out.append(Case(f"concatenate.k{k}.{kind}", _concat(k, kind), setup=_setup))
    return out
