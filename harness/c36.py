"""C36 Distributions have the values and weights they advertise."""
import itertools

import numpy as np
import z3

from engine import sx, patch
from engine.run import Case
from engine.replay import make
from engine.sx import SNum, _z, _real, zand

PROPERTY = "C36"
BOUNDS = {
    "quick": "num_samples case-split over 1..4 (gaussian) / 1..5 (uniform); dimension 1 and 2; low/high/center/sigma/limit symbolic reals "
             "(sigma, limit > 0); divide: every composition of n <= 5 into explicit chunks and every int chunk count; values/weights symbolic",
    "thorough": "num_samples 1..6 (gaussian), 1..8 (uniform), divide n <= 7",
}
OUTSIDE = ["lazy (dask) blocks of divide: only the eager block objects are compared", "float round-off"]
STUBS = ["np.exp -> fresh positive real per argument with monotonicity/injectivity/exp(0)=1 instances (no other fact about exp)",
         "np.sqrt -> r >= 0, r*r = x", "np.linspace -> start + i*(stop-start)/div with the last point pinned to stop (numpy's definition)"]
ASSUMPTIONS = ["standard_deviation > 0, sampling_limit > 0"]

import abtem.distributions as D


def _setup():
    import abtem.core.utils as UT
    patch.patch(D)
    patch.set(UT, "isinstance", sx.sisinstance)


def _uniform(N):
    def fn(c):
        lo = c.real("low")
        hi = c.real("high")
        n = c.int("n", 1, N)
        ep = bool(c.bool("endpoint"))
        d = D.uniform(lo, hi, n, endpoint=ep)
        k = len(d.values)
        c.prove("uniform.count", k == _z(n), replay=R_U)
        div = (k - 1) if ep else k
        conds = []
        for i in range(k):
            if div > 0:
                conds.append(sx.zclose(d.values[i], SNum(_z(lo) + (_z(hi) - _z(lo)) * z3.RealVal(i) / z3.RealVal(div)), rtol=1e-12, atol=1e-300))
            else:
                conds.append(_z(d.values[i]) == _z(lo))
        c.prove("uniform.equally_spaced_from_low", zand(*conds), replay=R_U)
        if ep and k > 1:
            c.prove("uniform.last_is_high", _z(d.values[-1]) == _z(hi), replay=R_U)
        c.prove("uniform.unit_weights", zand(len(d.weights) == k, *[_z(w) == 1 for w in d.weights]), replay=R_U)
        c.output("v_last", d.values[-1])
        nd = -d
        c.prove("neg.values_negated_weights_kept", zand(*[_z(a) == -_z(b) for a, b in zip(nd.values, d.values)],
                                                       *[_z(a) == _z(b) for a, b in zip(nd.weights, d.weights)],
                                                       len(nd.values) == k), replay=R_U)
        if k > 1:
            c.canary("uniform.canary_endpoint_always", _z(d.values[-1]) == _z(hi))
    return fn


R_U = make("""
    import abtem
    lo, hi, n, ep = float(V['low']), float(V['high']), int(V['n']), bool(V['endpoint'])
    d = abtem.distributions.uniform(lo, hi, n, endpoint=ep)
    div = (n - 1) if ep else n
    ref = np.array([lo + (hi - lo) * i / div if div else lo for i in range(n)])
    tol = 1e-9 * max(abs(lo), abs(hi), 1e-300)
    if len(d.values) != n or not np.all(np.abs(d.values - ref) <= tol): bad, why = True, f"uniform({lo},{hi},{n},{ep}).values = {d.values}, expected {ref}"
    if not np.all(d.weights == 1): bad, why = True, "weights"
    nd = -d
    if not (np.all(nd.values == -d.values) and np.all(nd.weights == d.weights)): bad, why = True, "negation"
""")


def _uconc(v):
    d = D.uniform(v["low"], v["high"], v["n"], endpoint=v["endpoint"])
    return {"v_last": float(d.values[-1])}


def _gauss(N, dim, normalize):
    rp = R_G(dim, normalize)

    def fn(c):
        cs = tuple(c.real(f"center{k}") for k in range(dim))
        sg = tuple(c.real(f"sigma{k}", 0, lo_strict=True) for k in range(dim))
        lim = c.real("limit", 0, lo_strict=True)
        ns = tuple(c.int(f"n{k}", 1, N) for k in range(dim))
        g = D.gaussian(sg if dim > 1 else sg[0], ns if dim > 1 else ns[0], center=cs if dim > 1 else cs[0],
                       dimension=dim, sampling_limit=lim, normalize=normalize)
        c.prove("gaussian.dimensions", g.dimensions == dim and len(g.shape) == dim, replay=rp)
        eoff = 0
        for k, dist in enumerate(g.distributions):
            v, w = dist.values, dist.weights
            n = len(v)
            c.prove("gaussian.count", n == _z(ns[k]) and g.shape[k] == n, replay=rp)
            ce, s = _z(cs[k]), _z(sg[k])
            c.prove("gaussian.symmetric_about_center", zand(*[_z(v[i]) + _z(v[n - 1 - i]) == 2 * ce for i in range(n)]), replay=rp)
            c.prove("gaussian.within_limit", zand(*[zand(_z(v[i]) - ce <= _z(lim) * s, ce - _z(v[i]) <= _z(lim) * s) for i in range(n)]), replay=rp)
            if n > 1:
                c.prove("gaussian.spans_limit", zand(_z(v[0]) == ce - _z(lim) * s, _z(v[-1]) == ce + _z(lim) * s), replay=rp)
                c.prove("gaussian.equally_spaced", zand(*[(_z(v[i + 1]) - _z(v[i])) * (n - 1) == 2 * _z(lim) * s for i in range(n - 1)]), replay=rp)
            # weights follow the Gaussian profile: (a) the arguments the code hands to exp are -1/2 ((v_i - c)/s)^2,
            # (b) the weights are proportional to those exp values
            eargs = c._exp_args[eoff:eoff + n]
            eoff += n
            c.prove("gaussian.profile_argument", zand(len(eargs) == n, *[ea[0] * 2 * s * s == -(_z(v[i]) - ce) * (_z(v[i]) - ce)
                                                                        for i, ea in enumerate(eargs)]), replay=rp)
            if dim == 2:
                continue  # proportionality and normalisation are decided in the 1-D cases (same loop body)
            c.prove("gaussian.profile", zand(*[_z(w[i]) * eargs[j][1] == _z(w[j]) * eargs[i][1] for i in range(n) for j in range(i + 1, n)],
                                             *[_z(w[i]) > 0 for i in range(n)]), replay=rp)
            tot = sum((_z(x) * _z(x) for x in w), z3.RealVal(0)) if normalize == "intensity" else sum((_z(x) for x in w), z3.RealVal(0))
            c.prove("gaussian.unit_norm", tot == 1, replay=rp)
            c.output(f"w0_{k}", w[0])
            c.output(f"v0_{k}", v[0])
            if n > 2:
                c.canary("gaussian.canary_flat_weights", _z(w[0]) == _z(w[1]))
        if dim == 2:
            V, W = g.values, g.weights
            d0, d1 = g.distributions
            ok = [V.shape == (len(d0.values), len(d1.values), 2), W.shape == (len(d0.values), len(d1.values))]
            for i in range(len(d0.values)):
                for j in range(len(d1.values)):
                    ok += [_z(V[i, j, 0]) == _z(d0.values[i]), _z(V[i, j, 1]) == _z(d1.values[j]),
                           _z(W[i, j]) == _z(d0.weights[i]) * _z(d1.weights[j])]
            c.prove("multidim.values_weights_outer", zand(*ok), replay=rp)
            ng = -g
            c.prove("multidim.neg", zand(*[_z(a) == -_z(b) for x, y in zip(ng.distributions, g.distributions) for a, b in zip(x.values, y.values)],
                                         *[_z(a) == _z(b) for x, y in zip(ng.distributions, g.distributions) for a, b in zip(x.weights, y.weights)]), replay=rp)
    return fn


def R_G(dim, normalize):
    return make("""
    import abtem
    cs = tuple(float(V[f'center{k}']) for k in range(DIM)); sg = tuple(float(V[f'sigma{k}']) for k in range(DIM))
    ns = tuple(int(V[f'n{k}']) for k in range(DIM)); lim = float(V['limit'])
    g = abtem.distributions.gaussian(sg if DIM > 1 else sg[0], ns if DIM > 1 else ns[0], center=cs if DIM > 1 else cs[0], dimension=DIM, sampling_limit=lim, normalize=NORM)
    for k, d in enumerate(g.distributions):
        v, w = np.asarray(d.values, float), np.asarray(d.weights, float); n = ns[k]
        scale = max(abs(cs[k]), lim * sg[k])
        if len(v) != n: bad, why = True, "count"
        if not np.allclose(v + v[::-1], 2 * cs[k], rtol=0, atol=1e-9 * scale): bad, why = True, f"values {v} not symmetric about center {cs[k]}"
        if np.any(np.abs(v - cs[k]) > lim * sg[k] * (1 + 1e-9)): bad, why = True, "outside limit"
        if n > 1 and not np.allclose(np.diff(v), 2 * lim * sg[k] / (n - 1), rtol=1e-9, atol=1e-12 * scale): bad, why = True, f"spacing {np.diff(v)}"
        prof = np.exp(-0.5 * ((v - cs[k]) / sg[k]) ** 2)
        if prof.min() > 1e-200:
            r = w / prof
            if not np.allclose(r, r[0], rtol=1e-9): bad, why = True, f"weights {w} do not follow the Gaussian profile {prof}"
            tot = (w ** 2).sum() if NORM == 'intensity' else w.sum()
            if abs(tot - 1) > 1e-9: bad, why = True, f"norm {tot}"
    if DIM == 2:
        d0, d1 = g.distributions
        if not (np.allclose(g.values[..., 0], np.asarray(d0.values)[:, None] + 0 * np.asarray(d1.values)[None]) and np.allclose(g.values[..., 1], np.asarray(d1.values)[None] + 0 * np.asarray(d0.values)[:, None]) and np.allclose(g.weights, np.outer(d0.weights, d1.weights))): bad, why = True, "multidimensional values/weights"
""", DIM=dim, NORM=normalize)


def _gconc(normalize):
    def f(v):
        g = D.gaussian(v["sigma0"], v["n0"], center=v["center0"], sampling_limit=v["limit"], normalize=normalize)
        return {"w0_0": float(g.distributions[0].weights[0]), "v0_0": float(g.distributions[0].values[0])}
    return f


def _compositions(n):
    for k in range(1, n + 1):
        for cuts in itertools.combinations(range(1, n), k - 1):
            b = (0,) + cuts + (n,)
            yield tuple(b[i + 1] - b[i] for i in range(k))


def _divide(n):
    rp = R_D(n)

    def fn(c):
        vals = sx.sym_array(c, "v", (n,))
        ws = sx.sym_array(c, "w", (n,))
        em = bool(c.bool("ensemble_mean"))
        d = D.DistributionFromValues(vals, ws, ensemble_mean=em)
        for chunks in list(_compositions(n)) + list(range(1, n + 1)):
            blocks = d.divide(chunks, lazy=False)
            cat_v = [x for b in blocks for x in b.values]
            cat_w = [x for b in blocks for x in b.weights]
            sizes = [len(b.values) for b in blocks]
            ok = [len(cat_v) == n, len(cat_w) == n, all(b.ensemble_mean == em for b in blocks), all(s >= 1 for s in sizes)]
            if isinstance(chunks, tuple):
                ok.append(tuple(sizes) == chunks)
            else:
                ok.append(len(sizes) == chunks and max(sizes) - min(sizes) <= 1)
            if len(cat_v) == n:
                ok += [_z(a) == _z(b) for a, b in zip(cat_v, vals)] + [_z(a) == _z(b) for a, b in zip(cat_w, ws)]
            c.prove("divide.partitions_values_and_weights", zand(*ok), replay=rp, info=str(chunks))
        md = D.MultidimensionalDistribution([d])
        blocks = md.divide(n, lazy=False)
        c.prove("divide.multidim_1d_delegates", zand(*[_z(b.values[0]) == _z(vals[i]) for i, b in enumerate(blocks)], len(blocks) == n), replay=rp)
        fv = D.from_values(list(vals))
        c.prove("from_values.unit_weights", zand(*[_z(a) == _z(b) for a, b in zip(fv.values, vals)], *[_z(w) == 1 for w in fv.weights]), replay=rp)
        if n > 1:
            c.canary("divide.canary_reversed", zand(*[_z(a) == _z(b) for a, b in zip(reversed(vals), vals)]))
    return fn


def R_D(n):
    return make("""
    import itertools
    from abtem.distributions import DistributionFromValues, from_values, MultidimensionalDistribution
    vals = np.array([float(V[f'v_{i}']) for i in range(N)]); ws = np.array([float(V[f'w_{i}']) for i in range(N)])
    d = DistributionFromValues(vals, ws, ensemble_mean=bool(V['ensemble_mean']))
    def comps(n):
        for k in range(1, n + 1):
            for cuts in itertools.combinations(range(1, n), k - 1):
                b = (0,) + cuts + (n,)
                yield tuple(b[i + 1] - b[i] for i in range(k))
    for chunks in list(comps(N)) + list(range(1, N + 1)):
        blocks = d.divide(chunks, lazy=False)
        cv = np.concatenate([b.values for b in blocks]); cw = np.concatenate([b.weights for b in blocks])
        if cv.shape != vals.shape or not (np.array_equal(cv, vals) and np.array_equal(cw, ws)): bad, why = True, f"divide({chunks}) gives values {cv} weights {cw}"
        if isinstance(chunks, tuple) and tuple(len(b.values) for b in blocks) != chunks: bad, why = True, f"divide({chunks}) block sizes"
    fv = from_values(list(vals))
    if not (np.array_equal(fv.values, vals) and np.all(fv.weights == 1)): bad, why = True, "from_values"
""", N=n)


def cases(tier):
    q = tier == "quick"
    out = [Case("uniform", _uniform(5 if q else 8), setup=_setup, concrete=_uconc,
                vectors=[{"low": -1.0, "high": 2.0, "n": 4, "endpoint": True}, {"low": 0.5, "high": 3.0, "n": 3, "endpoint": False}])]
    for norm in ("intensity", "amplitude"):
        out.append(Case(f"gaussian.1d.{norm}", _gauss(4 if q else 6, 1, norm), setup=_setup, concrete=_gconc(norm), tol=1e-7,
                        vectors=[{"center0": 1.0, "sigma0": 2.0, "limit": 3.0, "n0": 3}], timeout_ms=60000, budget_s=240 if q else 1500))
    out.append(Case("gaussian.2d.intensity", _gauss(3 if q else 4, 2, "intensity"), setup=_setup, timeout_ms=60000, budget_s=240 if q else 1500))
    for n in ((1, 2, 3, 5) if q else (1, 2, 3, 4, 5, 6, 7)):
        out.append(Case(f"divide.n{n}", _divide(n), setup=_setup))
    return out
