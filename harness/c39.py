"""C39 Beam tilt acts as a lateral shift per propagation distance."""
import numpy as np
import z3

from engine import sx, patch, snp
from engine.run import Case
from engine.replay import make
from engine.sx import SNum, Polar, zand, _z, _real
from harness import c04 as H4

PROPERTY = "C39"
BOUNDS = {
    "quick": "grids 2x3 and 3x4; sampling (1/4, 3/10) A as exact constants; thickness, tilt (tx, ty) and tilt-axis values symbolic reals; base tilt alone, one axis-aligned tilt axis (x or y, 2 values) with and "
             "without a non-zero base tilt, a 2-D tilt axis (2 pairs) with and without base tilt",
    "thorough": "grids up to 4x5, tilt axes with 3 values, two axis-aligned tilt axes at once",
}
OUTSIDE = ["the shift theorem itself (multiplying by the kernel = periodic shift) is decided in C15/C20; here: tilt factor = that kernel for displacement dz*tan(t)",
           "antialias aperture values (pure modulus, identical with and without tilt)"]
STUBS = ["complex_exponential -> unit phasor", "np.tan -> uninterpreted function tan", "energy2wavelength -> symbolic positive", "waves -> real Waves object state over an object array"]
ASSUMPTIONS = ["sampling > 0"]

import abtem.multislice as MS
import abtem.core.fft as F
from abtem.core.axes import AxisAlignedTiltAxis, TiltAxis

TAN = sx.TAN


def _shift_turns(gpts, samp, i, j, dz, tx, ty):
    """turn count of the shift kernel for displacement dz*tan(t) [A]: -(kx sx + ky sy), k = index/extent"""
    ki = (i if i < (gpts[0] + 1) // 2 else i - gpts[0]) / (gpts[0] * _z(samp[0]))
    kj = (j if j < (gpts[1] + 1) // 2 else j - gpts[1]) / (gpts[1] * _z(samp[1]))
    return -(ki * _z(dz) * TAN(_real(_z(tx)) / _z(1e3)) + kj * _z(dz) * TAN(_real(_z(ty)) / _z(1e3)))


def _tilt(gpts, mode, which="aniso"):
    rp = R_T(gpts, mode)

    def fn(c):
        c.pc += sx.pi_axioms() + [H4.LAM > 0]
        a, b = c.real("dx"), c.real("dy")
        sv = tuple(z3.RealVal(x) for x in H4.SAMPLINGS[which])
        c.assume(_z(a) == sv[0]); c.assume(_z(b) == sv[1])
        samp = (SNum(sv[0]), SNum(sv[1]))  # exact constants: the antialias aperture compares pixel radii with its cutoff
        dz = c.real("dz")
        bt = (c.real("tx"), c.real("ty")) if "base" in mode else (0.0, 0.0)
        if "base" in mode:
            c.assume(sx.zor(_z(bt[0]) != 0, _z(bt[1]) != 0))
        axes = []
        vals = []
        if "axisx" in mode or "axisy" in mode:
            d = "x" if "axisx" in mode else "y"
            vals = [c.real("a0"), c.real("a1")]
            axes = [AxisAlignedTiltAxis(label=f"tilt_{d}", values=tuple(vals), direction=d)]
        if "pairs" in mode:
            vals = [(c.real("p0x"), c.real("p0y")), (c.real("p1x"), c.real("p1y"))]
            axes = [TiltAxis(label="tilt", values=tuple(vals))]
        w0 = H4.mk_waves(gpts, samp)
        K0 = MS.FresnelPropagator._calculate_array(w0, dz, order=1)
        w = H4.mk_waves(gpts, samp, tilt=bt, axes=axes)
        K = MS.FresnelPropagator._calculate_array(w, dz, order=1)
        n = len(vals) if axes else 1
        ok = [K.shape == ((n,) if axes else ()) + tuple(gpts)]
        if ok[0]:
            for m in range(n):
                if not axes:
                    tx, ty = bt
                elif "pairs" in mode:
                    tx, ty = vals[m][0] + bt[0], vals[m][1] + bt[1]
                elif "axisx" in mode:
                    tx, ty = vals[m] + bt[0], bt[1]
                else:
                    tx, ty = bt[0], vals[m] + bt[1]
                for i in range(gpts[0]):
                    for j in range(gpts[1]):
                        e = K[(m, i, j) if axes else (i, j)]
                        ratio = e * K0[i, j].conjugate() if isinstance(e, Polar) else None
                        if ratio is None:
                            ok.append(z3.BoolVal(False))
                            continue
                        # sum of per-axis displacement terms: tan(a)+tan(b) is NOT tan(a+b); the code applies base tilt and axis tilt as two factors
                        if axes and "base" in mode:
                            if "pairs" in mode:
                                want = _shift_turns(gpts, samp, i, j, dz, vals[m][0], vals[m][1]) + _shift_turns(gpts, samp, i, j, dz, bt[0], bt[1])
                            elif "axisx" in mode:
                                want = _shift_turns(gpts, samp, i, j, dz, vals[m], 0.0) + _shift_turns(gpts, samp, i, j, dz, bt[0], bt[1])
                            else:
                                want = _shift_turns(gpts, samp, i, j, dz, 0.0, vals[m]) + _shift_turns(gpts, samp, i, j, dz, bt[0], bt[1])
                        else:
                            want = _shift_turns(gpts, samp, i, j, dz, tx, ty)
                        ok.append(zand(sx.turns_mod1_eq(ratio.tau, want), sx.cabs2(e) == sx.cabs2(K0[i, j])))
        c.pc.append(TAN(z3.RealVal(0)) == 0)
        for k, f in enumerate(ok):  # one small query per pixel and ensemble member
            c.prove("tilted_propagator.equals_untilted_times_shift_kernel_for_dz_tan_t", f, replay=rp, info=k)
        e = K[(0, 1, 1) if axes else (1, 1)]
        c.canary("tilt.canary_no_effect", sx.turns_mod1_eq(e.tau, K0[1, 1].tau) if isinstance(e, Polar) else z3.BoolVal(True))
    return fn


def R_T(gpts, mode):
    return make("""
    import abtem
    from abtem.multislice import FresnelPropagator
    from abtem.core.fft import fft_shift_kernel
    dx, dy, dz = float(V['dx']), float(V['dy']), float(V['dz'])
    dz = float(np.clip(dz, -50, 50)) or 10.0
    clip = lambda t: float(np.clip(t, -30, 30))
    bt = (clip(V.get('tx', 0.0)), clip(V.get('ty', 0.0)))
    if 'pairs' in MODE: tilt = np.array([[clip(V['p0x']) + bt[0], clip(V['p0y']) + bt[1]], [clip(V['p1x']) + bt[0], clip(V['p1y']) + bt[1]]]); members = [tuple(t) for t in tilt]
    elif 'axisx' in MODE: members = [(clip(V['a0']) + bt[0], bt[1]), (clip(V['a1']) + bt[0], bt[1])]
    elif 'axisy' in MODE: members = [(bt[0], clip(V['a0']) + bt[1]), (bt[0], clip(V['a1']) + bt[1])]
    else: members = [bt]
    if 'pairs' in MODE:
        w = abtem.PlaneWave(gpts=GPTS, sampling=(dx, dy), energy=100e3, tilt=np.array([[clip(V['p0x']), clip(V['p0y'])], [clip(V['p1x']), clip(V['p1y'])]])).build(lazy=False)
        w.metadata['base_tilt_x'] = bt[0]; w.metadata['base_tilt_y'] = bt[1]
    elif 'axisx' in MODE: w = abtem.PlaneWave(gpts=GPTS, sampling=(dx, dy), energy=100e3, tilt=(np.array([clip(V['a0']), clip(V['a1'])]), bt[1])).build(lazy=False); w.metadata['base_tilt_x'] = bt[0]
    elif 'axisy' in MODE: w = abtem.PlaneWave(gpts=GPTS, sampling=(dx, dy), energy=100e3, tilt=(bt[0], np.array([clip(V['a0']), clip(V['a1'])]))).build(lazy=False); w.metadata['base_tilt_y'] = bt[1]
    else: w = abtem.PlaneWave(gpts=GPTS, sampling=(dx, dy), energy=100e3, tilt=bt).build(lazy=False)
    w0 = abtem.PlaneWave(gpts=GPTS, sampling=(dx, dy), energy=100e3).build(lazy=False)
    K = np.asarray(FresnelPropagator._calculate_array(w, dz, order=1)).reshape((-1,) + tuple(GPTS))
    K0 = np.asarray(FresnelPropagator._calculate_array(w0, dz, order=1))
    for m, (tx, ty) in enumerate(members):
        shift = np.array([[dz * np.tan(tx / 1e3) / dx, dz * np.tan(ty / 1e3) / dy]])
        if 'base' in MODE and MODE != 'base':
            # base tilt and axis tilt are applied as two displacement factors
            ax_t = (members[m][0] - bt[0], members[m][1] - bt[1])
            shift = np.array([[dz * (np.tan(ax_t[0] / 1e3) + np.tan(bt[0] / 1e3)) / dx, dz * (np.tan(ax_t[1] / 1e3) + np.tan(bt[1] / 1e3)) / dy]])
        ref = K0 * fft_shift_kernel(shift, GPTS)[0]
        err = np.abs(K[m] - ref).max()
        if err > 1e-3: bad, why = True, f"member {m} tilt ({tx}, {ty}): tilted propagator differs from untilted x shift kernel(dz tan t) by {err}"
""", GPTS=tuple(gpts), MODE=mode)


def cases(tier):
    q = tier == "quick"
    out = []
    for g in ((2, 3), (3, 4)) if q else ((2, 3), (3, 4), (4, 5)):
        for mode in ("base", "axisx", "axisy", "pairs", "base+axisx", "base+axisy", "base+pairs"):
            out.append(Case(f"tilt.{g[0]}x{g[1]}.{mode}", _tilt(g, mode), setup=H4._setup, budget_s=240 if q else 1500))
    return out
