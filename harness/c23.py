"""C23 Apertures and partial-coherence envelopes stay within physical bounds."""
import z3

from engine import sx, patch, snp
from engine.run import Case
from engine.replay import make
from engine.sx import SNum, Polar, zand, _z, _real

PROPERTY = "C23"
BOUNDS = {
    "quick": "two pixels (the zero-angle pixel and one arbitrary pixel alpha >= 0, phi); cutoff, angular sampling, focal spread, angular spread >= 0, wavelength > 0 symbolic; "
             "spatial envelope: all coefficients of one radial order symbolic at a time; CTF: defocus, Cs, astigmatism + both envelopes + aperture",
    "thorough": "spatial envelope with two radial orders at a time",
}
OUTSIDE = ["Bullseye/Vortex/Zernike/phase-plate apertures", "float round-off", "distribution-valued parameters (C03)"]
STUBS = ["np.exp -> fresh positive real per argument with monotonicity / exp(0)=1 instances", "np.cos/np.sin -> uninterpreted with cos^2+sin^2=1",
         "np.sqrt -> exact model", "complex_exponential -> unit phasor", "energy2wavelength -> symbolic positive wavelength"]
ASSUMPTIONS = ["semiangle_cutoff >= 0, angular sampling > 0", "'half a pixel' is read as half of the larger of the two angular samplings (the pixel diagonal direction-dependent size is bounded by it)"]

import abtem.transfer as TR
import abtem.core.energy as E
import abtem.distributions as D
import abtem.core.grid as G
from harness.c21 import ORDERS, LAM


def _setup():
    patch.patch(TR)
    patch.patch(D)
    patch.patch(G)
    patch.set(TR, "complex_exponential", snp.complex_exponential)
    patch.set(E, "energy2wavelength", lambda e: SNum(LAM))


def _pixels(c):
    alpha = sx.obj([[SNum(z3.RealVal(0))], [c.real("alpha", 0)]])
    phi = sx.obj([[SNum(z3.RealVal(0))], [c.real("phi")]])
    return alpha, phi


def _apertures(c):
    alpha, phi = _pixels(c)
    cut = c.real("cutoff", 0)
    s = (c.real("sx", 0, lo_strict=True), c.real("sy", 0, lo_strict=True))
    soft = TR.soft_aperture(alpha, phi, cut, s)
    hard = TR.hard_aperture(alpha, cut)
    a = _z(alpha[1, 0])
    v = _z(soft[1, 0])
    half = z3.If(_z(s[0]) >= _z(s[1]), _z(s[0]), _z(s[1])) * _z(1e-3) / 2
    c.output("soft", soft[1, 0])
    c.prove("soft.range_0_1", zand(v >= 0, v <= 1, _z(soft[0, 0]) == 1), replay=R_AP)
    c.prove("soft.one_below_cutoff_minus_half_pixel", z3.Implies(a <= _z(cut) - half, v == 1), replay=R_AP)
    c.prove("soft.zero_above_cutoff_plus_half_pixel", z3.Implies(a >= _z(cut) + half, v == 0), replay=R_AP)
    h = _z(hard[1, 0])
    c.prove("hard.one_exactly_up_to_cutoff", zand(z3.Or(h == 0, h == 1), (h == 1) == (a <= _z(cut)), _z(hard[0, 0]) == 1), replay=R_AP)
    c.canary("soft.canary_hard_edge", z3.Or(v == 0, v == 1))


R_AP = make("""
    from abtem.transfer import soft_aperture, hard_aperture
    alpha, phi, cut, s = float(V['alpha']), float(V['phi']), float(V['cutoff']), (float(V['sx']), float(V['sy']))
    A = np.array([[0.0], [alpha]]); P = np.array([[0.0], [phi]])
    v = float(soft_aperture(A, P, cut, s)[1, 0]); h = float(hard_aperture(A, cut)[1, 0])
    half = max(s) * 1e-3 / 2; eps = 1e-6 * max(cut, half)
    if not (0 <= v <= 1): bad, why = True, f"soft aperture value {v}"
    if alpha <= cut - half - eps and abs(v - 1) > 1e-6: bad, why = True, f"soft aperture {v} != 1 at alpha {alpha} <= cutoff - half pixel"
    if alpha >= cut + half + eps and abs(v) > 1e-6: bad, why = True, f"soft aperture {v} != 0 at alpha {alpha} >= cutoff + half pixel"
    if abs(alpha - cut) > eps and h != float(alpha <= cut): bad, why = True, f"hard aperture {h} at alpha {alpha}, cutoff {cut}"
""")


def _apconc(v):
    import numpy as np
    A = np.array([[0.0], [v["alpha"]]]); P = np.array([[0.0], [v["phi"]]])
    return {"soft": float(TR.soft_aperture(A, P, v["cutoff"], (v["sx"], v["sy"]))[1, 0])}


def _aperture_class(c):
    """Aperture._evaluate_from_angular_grid: mrad -> rad conversion, soft/hard dispatch"""
    alpha, phi = _pixels(c)
    cut = c.real("cutoff", 0)
    c.pc += [LAM > 0]
    soft = bool(c.bool("soft"))
    ap = TR.Aperture(semiangle_cutoff=cut, soft=soft, energy=100e3, gpts=(4, 4), sampling=(c.real("dx", 0, lo_strict=True), c.real("dy", 0, lo_strict=True)))
    out = ap._evaluate_from_angular_grid(alpha, phi)
    v = _z(out[1, 0]); a = _z(alpha[1, 0])
    c.prove("aperture.range_0_1", zand(v >= 0, v <= 1), replay=None)
    if not soft:
        c.prove("aperture.hard_cutoff_in_mrad", (v == 1) == (a <= _z(cut) * _z(1e-3)), replay=None)
    else:
        s = ap.angular_sampling
        half = z3.If(_z(s[0]) >= _z(s[1]), _z(s[0]), _z(s[1])) * _z(1e-3) / 2
        c.prove("aperture.soft_plateaus_in_mrad", zand(z3.Implies(a <= _z(cut) * _z(1e-3) - half, v == 1), z3.Implies(a >= _z(cut) * _z(1e-3) + half, v == 0)), replay=None)


def _temporal(c):
    alpha, phi = _pixels(c)
    c.pc += sx.pi_axioms() + [LAM > 0]
    fs = c.real("focal_spread")
    te = TR.TemporalEnvelope(focal_spread=fs, energy=100e3)
    out = te._evaluate_from_angular_grid(alpha, phi)
    v = _z(out[1, 0])
    c.output("env", out[1, 0])
    c.prove("temporal.in_0_1", zand(v > 0, v <= 1), replay=R_T)
    c.prove("temporal.one_at_zero_angle", _z(out[0, 0]) == 1, replay=R_T)
    c.canary("temporal.canary_constant", v == 1)


R_T = make("""
    import abtem
    alpha, phi, fs = float(V['alpha']), float(V['phi']), float(V['focal_spread'])
    A = np.array([[0.0], [alpha]]); P = np.array([[0.0], [phi]])
    out = np.asarray(abtem.transfer.TemporalEnvelope(focal_spread=fs, energy=100e3)._evaluate_from_angular_grid(A, P)).reshape(-1)
    if not (0 <= out[-1] <= 1 + 1e-6): bad, why = True, f"temporal envelope {out[-1]}"
    if abs(out[0] - 1) > 1e-6: bad, why = True, f"temporal envelope at zero angle {out[0]}"
""")


def _spatial(orders):
    rp = R_S(orders)

    def fn(c):
        alpha, phi = _pixels(c)
        c.pc += sx.pi_axioms() + [LAM > 0]
        coef = {}
        for o in orders:
            for s in ORDERS[o]:
                coef[s] = c.real(s)
        spread = c.real("angular_spread", 0)
        se = TR.SpatialEnvelope(angular_spread=spread, energy=100e3, **coef)
        out = se._evaluate_from_angular_grid(alpha, phi)
        v = _z(out[1, 0])
        c.prove("spatial.in_0_1_for_nonnegative_spread", zand(v > 0, v <= 1), replay=rp)
        c.prove("spatial.one_at_zero_angle", _z(out[0, 0]) == 1, replay=rp)
        c.canary("spatial.canary_constant", v == 1)
    return fn


def R_S(orders):
    return make("""
    import abtem
    syms = [s for o in ORDS for s in ORDERS[o]]
    coef = {s: float(V[s]) for s in syms}
    alpha, phi, spread = float(V['alpha']), float(V['phi']), float(V['angular_spread'])
    # the identity "1 at zero angle" is scale free; bring numbers into a range where exp does not underflow
    big = max([abs(v) for k, v in coef.items() if k[0] == 'C'] + [1e-300])
    cf = {k: (v / big * 1e3 if k[0] == 'C' else v) for k, v in coef.items()}
    spread = min(max(spread, 1e-3), 5.0) if spread > 0 else 0.0
    A = np.array([[0.0], [min(alpha, 0.03)]]); P = np.array([[0.0], [phi]])
    out = np.asarray(abtem.transfer.SpatialEnvelope(angular_spread=spread, energy=100e3, **cf)._evaluate_from_angular_grid(A, P)).reshape(-1)
    if not (0 <= out[-1] <= 1 + 1e-6): bad, why = True, f"spatial envelope {out[-1]} outside [0, 1]"
    if abs(out[0] - 1) > 1e-6: bad, why = True, f"spatial envelope at zero scattering angle is {out[0]}, not 1 ({cf}, spread {spread})"
""", ORDS=tuple(orders), ORDERS=ORDERS)


def _ctf(c):
    alpha, phi = _pixels(c)
    c.pc += sx.pi_axioms() + [LAM > 0]
    cut = c.real("cutoff", 0)
    kw = dict(focal_spread=c.real("focal_spread"), angular_spread=c.real("angular_spread", 0), defocus=c.real("defocus"), Cs=c.real("Cs"),
              astigmatism=c.real("astigmatism"), astigmatism_angle=c.real("astigmatism_angle"))
    for k, v in kw.items():
        c.assume(v != 0)  # the zero / non-zero dispatch of each component is explored in C21 and the spatial cases
    ctf = TR.CTF(semiangle_cutoff=cut, soft=False, energy=100e3, **kw)
    out = ctf._evaluate_from_angular_grid(alpha, phi)
    ap = TR.hard_aperture(alpha, cut * 1e-3)
    ok = []
    for i in range(2):
        e = out[i, 0]
        amp = e.amp if isinstance(e, Polar) else _real(_z(e))
        ok.append(zand(amp <= _z(ap[i, 0]), -amp <= _z(ap[i, 0])))
    c.prove("ctf.never_transmits_more_than_its_aperture", zand(*ok), replay=R_C)
    e = out[1, 0]
    amp = e.amp if isinstance(e, Polar) else _real(_z(e))
    c.canary("ctf.canary_equals_aperture", amp == _z(ap[1, 0]))


R_C = make("""
    import abtem
    alpha, phi = min(float(V['alpha']), 0.05), float(V['phi'])
    A = np.array([[0.0], [alpha]]); P = np.array([[0.0], [phi]])
    cut = float(V['cutoff'])
    ctf = abtem.CTF(semiangle_cutoff=cut, soft=False, energy=100e3, focal_spread=float(V['focal_spread']), angular_spread=float(V['angular_spread']),
                    defocus=float(V['defocus']), Cs=float(V['Cs']), astigmatism=float(V['astigmatism']), astigmatism_angle=float(V['astigmatism_angle']))
    out = np.abs(np.asarray(ctf._evaluate_from_angular_grid(A, P))).reshape(-1)
    ap = (np.array([0.0, alpha]) <= cut * 1e-3).astype(float)
    if np.any(out > ap + 1e-6): bad, why = True, f"|CTF| {out} exceeds aperture {ap}"
""")


def cases(tier):
    q = tier == "quick"
    out = [Case("apertures", _apertures, setup=_setup, concrete=_apconc, tol=1e-6,
                vectors=[{"alpha": 0.0195, "phi": 0.7, "cutoff": 0.02, "sx": 1.3, "sy": 0.9}, {"alpha": 0.01, "phi": 2.0, "cutoff": 0.02, "sx": 1.0, "sy": 1.0}]),
           Case("aperture_class", _aperture_class, setup=_setup),
           Case("temporal", _temporal, setup=_setup),
           Case("ctf", _ctf, setup=_setup, timeout_ms=60000)]
    for o in ORDERS:
        out.append(Case(f"spatial.order{o}", _spatial((o,)), setup=_setup, timeout_ms=60000))
    if not q:
        for pair in ((1, 2), (3, 4), (1, 5)):
            out.append(Case(f"spatial.orders{pair[0]}{pair[1]}", _spatial(pair), setup=_setup, timeout_ms=120000))
    return out
