"""C21 The contrast transfer function implements the polar aberration expansion."""
import z3

from engine import sx, patch, snp
from engine.run import Case
from engine.replay import make
from engine.sx import SNum, Polar, zand, _z, _real

PROPERTY = "C21"
BOUNDS = {
    "quick": "all coefficients of one radial order symbolic at a time (the other orders concretely zero), every zero/non-zero pattern of that order explored by forking; "
             "alpha >= 0, phi, wavelength > 0, rotation delta symbolic reals; all 26 aliases; 2 pixels",
    "thorough": "additionally two radial orders symbolic at once (orders 1+3, 2+4, 3+5) and all five orders with non-zero symbolic coefficients",
}
OUTSIDE = ["distribution-valued coefficients (C03)", "float round-off in the phase"]
STUBS = ["complex_exponential(x) -> unit phasor with turn count x/(2 PI); equality of phasors = equal turn count mod 1",
         "np.cos -> uninterpreted cos of the (linearly normalised) angle with cos^2+sin^2=1", "energy2wavelength -> symbolic positive wavelength"]
ASSUMPTIONS = ["chi(alpha, phi) is written in the harness from Kirkland Eq. 2.22: sum_{n,m} C_nm alpha^(n+1) cos(m (phi - phi_nm)) / (n+1)"]

import abtem.transfer as TR
import abtem.core.energy as E
import abtem.distributions as D

LAM = z3.Real("wavelength")
ORDERS = {1: ("C10", "C12", "phi12"), 2: ("C21", "phi21", "C23", "phi23"), 3: ("C30", "C32", "phi32", "C34", "phi34"),
          4: ("C41", "phi41", "C43", "phi43", "C45", "phi45"), 5: ("C50", "C52", "phi52", "C54", "phi54", "C56", "phi56")}


def _setup():
    patch.patch(TR)
    patch.patch(D)
    patch.set(TR, "complex_exponential", snp.complex_exponential)
    patch.set(E, "energy2wavelength", lambda e: SNum(LAM))


def _chi(coef, alpha, phi):
    """Kirkland Eq. 2.22 with symbols C_nm / phi_nm; returns z3 term"""
    tot = z3.RealVal(0)
    for name, val in coef.items():
        if not name.startswith("C"):
            continue
        n, m = int(name[1]), int(name[2])
        a = _real(_z(alpha))
        p = z3.RealVal(1)
        for _ in range(n + 1):
            p = p * a
        if m == 0:
            ang = z3.RealVal(1)
        else:
            ang = _z((m * (SNum(_real(_z(phi))) - coef.get(f"phi{n}{m}", 0.0))).cos()) if m != 1 else _z((SNum(_real(_z(phi))) - coef.get(f"phi{n}{m}", 0.0)).cos())
        tot = tot + _z(1 / (n + 1)) * _real(_z(val)) * p * ang  # 1/(n+1) as the same double the code writes (1/3, 1/5, 1/6 are not exact)
    return tot


def _pixels(c):
    alpha = sx.obj([[SNum(z3.RealVal(0))], [c.real("alpha", 0)]])
    phi = sx.obj([[SNum(z3.RealVal(0))], [c.real("phi")]])
    return alpha, phi


def _expansion(orders, force_nonzero=False):
    rp = R_E(orders)

    def fn(c):
        c.pc += sx.pi_axioms() + [LAM > 0]
        coef = {}
        for o in orders:
            for s in ORDERS[o]:
                coef[s] = c.real(s)
                if force_nonzero and s.startswith("C"):
                    c.assume(coef[s] != 0)
        alpha, phi = _pixels(c)
        ab = TR.Aberrations(energy=100e3, **coef)
        out = ab._evaluate_from_angular_grid(alpha, phi)
        ok = []
        for i in range(2):
            want = -_chi(coef, alpha[i, 0], phi[i, 0]) / LAM
            e = out[i, 0]
            if isinstance(e, Polar):
                ok.append(zand(e.amp == 1, sx.turns_mod1_eq(e.tau, want)))
            else:
                # no aberrations: array of ones
                ok.append(zand(_z(e) == 1, sx.turns_mod1_eq(z3.RealVal(0), want)))
        c.prove("aberrations.equal_exp_minus_2pi_i_chi_over_lambda", zand(*ok), replay=rp)
        # rotating every azimuthal coefficient by delta == evaluating at phi - delta
        d = c.real("delta")
        rot = {k: (v + d if k.startswith("phi") else v) for k, v in coef.items()}
        ab2 = TR.Aberrations(energy=100e3, **rot)
        o2 = ab2._evaluate_from_angular_grid(alpha, phi)
        phi_shift = sx.obj([[phi[0, 0] - d], [phi[1, 0] - d]])
        o3 = ab._evaluate_from_angular_grid(alpha, phi_shift)
        rk = []
        for i in range(2):
            a, b = o2[i, 0], o3[i, 0]
            ta = a.tau if isinstance(a, Polar) else z3.RealVal(0)
            tb = b.tau if isinstance(b, Polar) else z3.RealVal(0)
            rk.append(sx.turns_mod1_eq(ta, tb))
        c.prove("aberrations.rotating_phi_nm_equals_evaluating_at_phi_minus_delta", zand(*rk), replay=rp)
        e = out[1, 0]
        c.canary("canary.wrong_sign", sx.turns_mod1_eq(e.tau if isinstance(e, Polar) else z3.RealVal(0), _chi(coef, alpha[1, 0], phi[1, 0]) / LAM))
    return fn


def R_E(orders):
    return make("""
    import abtem
    from abtem.core.energy import energy2wavelength
    syms = [s for o in ORDS for s in ORDERS[o]]
    coef = {s: float(V[s]) for s in syms}
    alpha, phi, delta = float(V['alpha']), float(V['phi']), float(V.get('delta', 0.3))
    energy = 100e3; lam = energy2wavelength(energy)
    # scale the coefficients so that chi/lambda is O(1) turns at this alpha (the identity is homogeneous in the coefficients)
    def chi(cf, a, p):
        t = 0.0
        for k, v in cf.items():
            if k[0] != 'C': continue
            n, m = int(k[1]), int(k[2])
            t += v * a ** (n + 1) * np.cos(m * (p - cf.get(f'phi{n}{m}', 0.0))) / (n + 1)
        return t
    alpha = min(max(alpha, 1e-3), 0.05)
    big = max([abs(v) * alpha ** (int(k[1]) + 1) for k, v in coef.items() if k[0] == 'C'] + [1e-300])
    scale = lam / big
    cf = {k: (v * scale if k[0] == 'C' else v) for k, v in coef.items()}
    A = np.array([[0.0], [alpha]]); P = np.array([[0.0], [phi]])
    ab = abtem.transfer.Aberrations(energy=energy, **cf)
    got = np.asarray(ab._evaluate_from_angular_grid(A, P)).reshape(-1)[-1]
    want = np.exp(-2j * np.pi * chi(cf, alpha, phi) / lam)
    if abs(got - want) > 2e-3: bad, why = True, f"aberration function {got} != exp(-2 pi i chi/lambda) = {want} for {cf}"
    rot = {k: (v + delta if k.startswith('phi') else v) for k, v in cf.items()}
    g2 = np.asarray(abtem.transfer.Aberrations(energy=energy, **rot)._evaluate_from_angular_grid(A, P)).reshape(-1)[-1]
    g3 = np.asarray(ab._evaluate_from_angular_grid(A, P - delta)).reshape(-1)[-1]
    if abs(g2 - g3) > 2e-3: bad, why = True, f"rotating phi_nm by {delta}: {g2} != evaluating at phi - delta: {g3}"
""", ORDS=tuple(orders), ORDERS=ORDERS)


def _aliases(c):
    names = dict(TR.polar_aliases)
    ab = TR.Aberrations(energy=100e3)
    ctf = TR.CTF(energy=100e3)
    ok = []
    vals = {}
    for i, (alias, sym) in enumerate(sorted(names.items())):
        if alias == "defocus":
            continue  # defocus is -C10 by definition, checked below
        v = c.real(f"v{i}")
        vals[alias] = v
        setattr(ab, alias, v)
        setattr(ctf, alias, v)
        ok.append(_z(getattr(ab, sym)) == _z(v))
        ok.append(_z(getattr(ab, alias)) == _z(v))
        ok.append(_z(ctf.aberration_coefficients[sym]) == _z(v))
    c.prove("aliases.address_the_same_coefficient", zand(*ok), replay=R_A)
    d = c.real("defocus")
    ab.defocus = d
    ctf.defocus = d
    c.prove("defocus.is_negative_C10", zand(_z(ab.C10) == -_z(d), _z(ab.defocus) == _z(d), _z(ctf.C10) == -_z(d),
                                             _z(ctf.aberration_coefficients["C10"]) == -_z(d)), replay=R_A)
    ab2 = TR.Aberrations(energy=100e3)
    ab2.set_aberrations({"Cs": vals["Cs"], "defocus": d})
    c.prove("set_aberrations.aliases_and_defocus", zand(_z(ab2.C30) == _z(vals["Cs"]), _z(ab2.C10) == -_z(d)), replay=R_A)
    c.canary("defocus.canary", _z(ab.C10) == _z(d))


R_A = make("""
    import abtem
    from abtem.transfer import polar_aliases, Aberrations, CTF
    for i, (alias, sym) in enumerate(sorted(polar_aliases.items())):
        if alias == 'defocus': continue
        v = float(V.get(f'v{i}', 1.5 + i))
        ab = Aberrations(energy=100e3); setattr(ab, alias, v)
        if getattr(ab, sym) != v or getattr(ab, alias) != v: bad, why = True, f"alias {alias} does not address {sym}"
        ct = CTF(energy=100e3); setattr(ct, alias, v)
        if ct.aberration_coefficients[sym] != v: bad, why = True, f"CTF alias {alias} does not address {sym}"
    d = float(V.get('defocus', 7.0))
    ab = Aberrations(energy=100e3); ab.defocus = d
    if ab.C10 != -d or ab.defocus != d: bad, why = True, "defocus is not -C10"
    ab2 = Aberrations(energy=100e3); ab2.set_aberrations({'Cs': 3.0, 'defocus': d})
    if ab2.C30 != 3.0 or ab2.C10 != -d: bad, why = True, "set_aberrations"
""")


def cases(tier):
    q = tier == "quick"
    out = [Case(f"expansion.order{o}", _expansion((o,)), setup=_setup, max_paths=3000, budget_s=240 if q else 1500) for o in ORDERS]
    out.append(Case("aliases", _aliases, setup=_setup))
    if not q:
        for pair in ((1, 3), (2, 4), (3, 5)):
            out.append(Case(f"expansion.orders{pair[0]}{pair[1]}", _expansion(pair), setup=_setup, max_paths=6000, budget_s=1500))
        out.append(Case("expansion.all_orders_nonzero", _expansion((1, 2, 3, 4, 5), force_nonzero=True), setup=_setup, budget_s=1500))
    return out
