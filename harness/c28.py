"""C28 Ptychographic operators honour their mathematical contracts."""
import numpy as np
import z3

from engine import sx, patch, snp
from engine.run import Case
from engine.replay import make
from engine.sx import SNum, SComplex, Polar, zand, _z, _real

PROPERTY = "C28"
BOUNDS = {
    "quick": "Fourier projection pointwise in Fourier space (1 and 2 symbolic complex components, the spectrum is the input) and end-to-end on a 1x2 exit wave with the exact DFT, symbolic measured amplitudes >= 0; r-PIE update on 2x2 probes inside a 3x3 object with "
             "symbolic complex contents, alpha, beta in (0, 1], step sizes, position; explicit scan positions J = 1..4 with symbolic coordinates and sampling; window indices for "
             "array shapes up to 4x5, windows up to 3x3, symbolic centre",
    "thorough": "update on 2x3 probes in a 4x4 object; J up to 6",
}
OUTSIDE = ["FFT values beyond the exact DFT sizes", "position correction (sobel gradients)", "mixed-state / multislice / simultaneous operator variants", "Fourier components that are exactly zero "
           "(the phase of 0 is conventional)"]
STUBS = ["xp.fft.fft2/ifft2 -> exact DFT (lengths 1, 2)", "xp.angle -> atan2 model (atomic angle t with r cos t = re, r sin t = im)", "xp.exp(1j t) -> unit phasor", "xp.abs -> sqrt(re^2+im^2) (exact model)",
         "np.round -> exact round-half-to-even"]
ASSUMPTIONS = ["alpha, beta in (0, 1]; probe and object windows not identically zero; every Fourier component of the exit wave non-zero for the phase clauses"]

import abtem.reconstruct as R
import abtem.core.fft as F
import abtem.core.grid as G

OP = R.RegularizedPtychographicOperator


def _shim():
    return snp.make_shim(pi=True, exp=snp.exp_dispatch)


def _setup():
    patch.patch(R)
    patch.patch(F)
    patch.patch(G)
    patch.set(G, "device_name_from_array_module", lambda xp: "cpu")
    patch.set(R, "asnumpy", lambda x: x)
    patch.set(F, "complex_exponential", snp.complex_exponential)


def _cabs2sum(a):
    return sum((sx.cabs2(x) for x in np.asarray(a, dtype=object).ravel()), z3.RealVal(0))


class _IdFFT:
    """the projection acts pointwise in Fourier space: with fft2 = ifft2 = identity the input array IS the spectrum"""
    fft2 = staticmethod(lambda a, **k: a)
    ifft2 = staticmethod(lambda a, **k: a)


def _projection(shape, exact=True):
    rp = R_P(shape)
    dft = (lambda a: snp.exact_fftn(a, (-2, -1), False)) if exact else (lambda a: a)

    def fn(c):
        c.pc += sx.pi_axioms()
        c.div_as_mul = True
        psi = sx.sym_array(c, "p", shape, kind="complex")
        A = sx.sym_array(c, "a", shape, lo=0)
        sse0 = c.real("sse")
        xp = _shim() if exact else snp.make_shim(pi=True, exp=snp.exp_dispatch, fft=_IdFFT)
        Fpsi = dft(psi)
        for i in np.ndindex(shape):
            c.assume(sx.cabs2(Fpsi[i]) > 0)
        c.assume(_cabs2sum(A) > 0) if False else c.assume(sum((_z(x) * _z(x) for x in A.ravel()), z3.RealVal(0)) > 0)
        out, sse = OP._fourier_projection(psi, A, sse0, xp=xp)
        Fo = dft(np.asarray(out, dtype=object))
        for i in np.ndindex(shape):
            fo, fp = SComplex.of(Fo[i]), SComplex.of(Fpsi[i])
            c.prove("projection.fourier_amplitude_equals_measured_amplitude", sx.cabs2(fo) == _z(A[i]) * _z(A[i]), replay=rp, info=str(i))
            # same phase: fo * conj(fp) is real and >= 0
            prod = fo * fp.conjugate()
            c.prove("projection.keeps_the_input_phase", z3.And(_z(prod.im) == 0, _z(prod.re) >= 0), replay=rp, info=str(i))
        # applying it twice changes nothing (compared in Fourier space; the DFT is a bijection)
        out2, _ = OP._fourier_projection(np.asarray(out, dtype=object).view(snp.SymArr), A, sse0, xp=xp)
        Fo2 = dft(np.asarray(out2, dtype=object))
        for i in np.ndindex(shape):
            c.prove("projection.idempotent_where_amplitude_positive", z3.Implies(_z(A[i]) > 0, sx.zeq(SComplex.of(Fo2[i]), SComplex.of(Fo[i]))), replay=rp, info=str(i))
        c.canary("projection.canary_identity", sx.zeq(SComplex.of(np.asarray(out).ravel()[0]), SComplex.of(psi.ravel()[0])))
    return fn


def R_P(shape):
    return make("""
    from abtem.reconstruct import RegularizedPtychographicOperator as OP
    n = int(np.prod(SHAPE))
    psi = np.array([complex(float(V[k.replace('i', 'r') if False else k[:-1] + 'r']), float(V[k])) for k in sorted(V) if k.startswith('p_') and k.endswith('i')]).reshape(SHAPE)
    A = np.abs(np.array([float(V[k]) for k in sorted(V) if k.startswith('a_')]).reshape(SHAPE))
    out, sse = OP._fourier_projection(psi.astype(np.complex128), A.astype(np.float64), 0.0)
    Fo = np.fft.fft2(out); Fp = np.fft.fft2(psi)
    if np.abs(np.abs(Fo) - A).max() > 1e-9 * max(A.max(), 1e-30): bad, why = True, f"|FFT(P psi)| = {np.abs(Fo).ravel()} != measured amplitude {A.ravel()}"
    nz = np.abs(Fp) > 1e-12 * np.abs(Fp).max()
    if np.abs(np.angle(Fo[nz] * np.conj(Fp[nz])) * (A[nz] > 0)).max(initial=0) > 1e-7: bad, why = True, "phase changed"
    out2, _ = OP._fourier_projection(out, A.astype(np.float64), 0.0)
    if np.abs(out2 - out).max() > 1e-9 * max(np.abs(out).max(), 1e-30): bad, why = True, f"second application changes the wave by {np.abs(out2 - out).max()}"
    # also a wave with empty Fourier components
    for psi0 in (np.ones(SHAPE, complex), ):
        o0, _ = OP._fourier_projection(psi0, A.astype(np.float64) + 0.5, 0.0)
        if np.abs(np.abs(np.fft.fft2(o0)) - (A + 0.5)).max() > 1e-9 * (A.max() + 0.5): bad, why = True, "flat exit wave: projected amplitude differs from the measured amplitude"
""", SHAPE=tuple(shape))


def _sse(shape):
    def fn(c):
        c.pc += sx.pi_axioms()
        psi = sx.sym_array(c, "p", shape, kind="complex")
        sse0 = c.real("sse")
        xp = _shim()
        Fpsi = snp.exact_fftn(psi, (-2, -1), False)
        A = np.empty(shape, dtype=object).view(snp.SymArr)
        for i in np.ndindex(shape):
            A[i] = SNum(sx.cabs2(Fpsi[i])).sqrt()   # measured amplitude = amplitude of the exit wave itself
        c.assume(sum((_z(x) * _z(x) for x in A.ravel()), z3.RealVal(0)) > 0)
        out, sse = OP._fourier_projection(psi, A, sse0, xp=xp)
        c.prove("projection.zero_error_when_amplitudes_already_match", _z(sse) == _z(sse0), replay=None)
    return fn


def _update(pshape, oshape):
    rp = R_U(pshape, oshape)

    def fn(c):
        c.div_as_mul = True
        obj = sx.sym_array(c, "o", oshape, kind="complex")
        pr = sx.sym_array(c, "q", pshape, kind="complex")
        alpha = c.real("alpha", 0, 1, lo_strict=True); beta = c.real("beta", 0, 1, lo_strict=True)
        so = c.real("object_step_size"); sp = c.real("probe_step_size")
        pos = (c.real("px", 0, oshape[0]), c.real("py", 0, oshape[1]))
        xp = _shim()
        c.assume(_cabs2sum(pr) > 0)
        idx = R._wrapped_indices_2D_window(sx.obj([pos[0], pos[1]]), pshape, oshape)
        roi = obj[idx]
        c.assume(_cabs2sum(roi) > 0)
        exit_w = np.asarray(roi * pr, dtype=object).view(snp.SymArr)
        o0, p0 = obj.copy(), pr.copy()
        params = {"alpha": alpha, "beta": beta, "object_step_size": so, "probe_step_size": sp}
        o1, p1, pos1 = OP._update_function(obj, pr, sx.obj([pos[0], pos[1]]), exit_w, exit_w.copy(), None, reconstruction_parameters=params, xp=xp)
        c.prove("update.true_object_and_probe_are_a_fixed_point", zand(*[sx.zeq(SComplex.of(o1[i]), SComplex.of(o0[i])) for i in np.ndindex(oshape)],
                                                                       *[sx.zeq(SComplex.of(p1[i]), SComplex.of(p0[i])) for i in np.ndindex(pshape)]), replay=rp)
    return fn


def R_U(pshape, oshape):
    return make("""
    from abtem.reconstruct import RegularizedPtychographicOperator as OP, _wrapped_indices_2D_window
    rng = np.random.default_rng(0)
    obj = (rng.random(OSHAPE) + 1j * rng.random(OSHAPE)); pr = (rng.random(PSHAPE) + 1j * rng.random(PSHAPE))
    pos = np.array([float(V['px']), float(V['py'])])
    idx = _wrapped_indices_2D_window(pos, PSHAPE, OSHAPE)
    ew = obj[idx] * pr
    params = {'alpha': float(V['alpha']), 'beta': float(V['beta']), 'object_step_size': float(V['object_step_size']), 'probe_step_size': float(V['probe_step_size'])}
    o1, p1, _ = OP._update_function(obj.copy(), pr.copy(), pos, ew, ew.copy(), None, reconstruction_parameters=params)
    if np.abs(o1 - obj).max() > 1e-12 or np.abs(p1 - pr).max() > 1e-12: bad, why = True, "update with psi' = psi changes object or probe"
    mod, sse = OP._fourier_projection(ew, np.abs(np.fft.fft2(ew)), 0.0)
    if abs(sse) > 1e-20 or np.abs(mod - ew).max() > 1e-9: bad, why = True, f"true object/probe: error {sse}, projection changes the exit wave by {np.abs(mod - ew).max()}"
""", PSHAPE=tuple(pshape), OSHAPE=tuple(oshape))


def _positions(J):
    rp = R_POS(J)

    def fn(c):
        P = sx.sym_array(c, "r", (J, 2))
        s = (c.real("sx", 0, lo_strict=True), c.real("sy", 0, lo_strict=True))
        ep = {"grid_scan_shape": None, "scan_step_sizes": None, "rotation_angle": None, "object_px_padding": None}
        out, _ = OP._calculate_scan_positions_in_pixels(P, s, (4, 4), ep)
        out = np.asarray(out, dtype=object)
        ok = [out.shape == (J, 2)]
        if ok[0]:
            for j in range(J):
                for d in range(2):
                    ok.append(_z(out[j, d]) - _z(out[0, d]) == (_z(P[j, d]) - _z(P[0, d])) / _z(s[d]))
        c.prove("positions.J_explicit_positions_give_J_pixel_positions_in_order", zand(*ok), replay=rp)
    return fn


def R_POS(J):
    return make("""
    from abtem.reconstruct import RegularizedPtychographicOperator as OP
    P = np.array([[float(V[f'r_{j}_0']), float(V[f'r_{j}_1'])] for j in range(JJ)]); s = (float(V['sx']), float(V['sy']))
    ep = {'grid_scan_shape': None, 'scan_step_sizes': None, 'rotation_angle': None, 'object_px_padding': None}
    out, _ = OP._calculate_scan_positions_in_pixels(P.copy(), s, (4, 4), ep)
    out = np.asarray(out)
    if out.shape != (JJ, 2): bad, why = True, f"{JJ} explicit positions -> {out.shape[0]} pixel positions"
    elif np.abs((out - out[0]) - (P - P[0]) / np.array(s)).max() > 1e-9 * (np.abs(P).max() / min(s) + 1): bad, why = True, "positions are not the input positions in pixels, in order"
""", JJ=J)


def _window(ashape, wshape):
    def fn(c):
        cx = c.real("cx", -1, ashape[0] + 1); cy = c.real("cy", -1, ashape[1] + 1)
        idx = R._wrapped_indices_2D_window(sx.obj([cx, cy]), wshape, ashape)
        rx = c.concretize(sx._round_half_even(_real(_z(cx)))); ry = c.concretize(sx._round_half_even(_real(_z(cy))))  # np.round: half to even
        wantx = [(rx - wshape[0] // 2 + i) % ashape[0] for i in range(wshape[0])]
        wanty = [(ry - wshape[1] // 2 + j) % ashape[1] for j in range(wshape[1])]
        c.prove("window.indices_are_centre_minus_half_plus_i_mod_shape", list(np.asarray(idx[0]).ravel()) == wantx and list(np.asarray(idx[1]).ravel()) == wanty, replay=None)
    return fn


def cases(tier):
    q = tier == "quick"
    out = []
    for shape in ((1, 1),) if q else ((1, 1), (1, 2)):
        out.append(Case(f"projection.pointwise.{shape[0]}x{shape[1]}", _projection(shape, exact=False), setup=_setup, timeout_ms=60000, budget_s=300 if q else 1800))
    out.append(Case("projection.exact_dft.1x2", _projection((1, 2), exact=True), setup=_setup, timeout_ms=20000 if q else 120000, budget_s=150 if q else 1800))
    for shape in ((1, 2), (2, 2)):
        out.append(Case(f"projection.zero_error.{shape[0]}x{shape[1]}", _sse(shape), setup=_setup, timeout_ms=60000, budget_s=300))
    for ps, os_ in (((2, 2), (3, 3)),) if q else (((2, 2), (3, 3)), ((2, 3), (4, 4))):
        out.append(Case(f"update.{ps[0]}x{ps[1]}.in.{os_[0]}x{os_[1]}", _update(ps, os_), setup=_setup, timeout_ms=60000, max_paths=400, budget_s=400 if q else 1800))
    for J in (1, 2, 3, 4) if q else (1, 2, 3, 4, 6):
        out.append(Case(f"positions.J{J}", _positions(J), setup=_setup, max_paths=2000))
    for a, w in (((3, 4), (2, 2)), ((4, 5), (3, 3)), ((2, 2), (3, 3))):
        out.append(Case(f"window.{a[0]}x{a[1]}.{w[0]}x{w[1]}", _window(a, w), setup=_setup, max_paths=400))
    return out
