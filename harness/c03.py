"""C03 Parameter ensembles decompose into individual simulations (kernels that build the ensemble axes)."""
import numpy as np
import z3

from engine import sx, patch, snp
from engine.run import Case
from engine.replay import make
from engine.sx import SNum, Polar, zand, _z, _real
from harness import c21 as H21

PROPERTY = "C03"
BOUNDS = {
    "quick": "one and two distribution-valued parameters with 2 (and 3) symbolic values and weights each; 2 pixels with symbolic alpha, phi; aberration coefficients of radial orders 1-3, "
             "aperture cutoff, focal spread, angular spread; beam tilt given as (scalar, distribution), (distribution, scalar), (distribution, distribution) and as a list of pairs",
    "thorough": "3 values per distribution, three distribution-valued aberrations at once",
}
OUTSIDE = ["scan-position ensembles (C19/C20)", "the reduction of ensemble_mean axes (a weighted sum over an axis: numpy)", "the full simulation: member i = scalar run follows once every "
           "kernel applied to the waves is the scalar kernel of member i (decided here) and the tilt factor of member i is that of its effective tilt (C39)"]
STUBS = ["complex_exponential -> unit phasor", "np.cos/np.exp -> trig / exp models", "energy2wavelength -> symbolic positive"]
ASSUMPTIONS = ["weights enter as a factor of the array (what _unpack_distributions returns); member i of the simulation uses value i"]

import abtem.transfer as TR
import abtem.tilt as TL
import abtem.distributions as D
import abtem.core.axes as AX

LAM = H21.LAM


def _setup():
    H21._setup()
    patch.patch(TL)
    patch.patch(AX)


def _pixels(c):
    alpha = sx.obj([[SNum(z3.RealVal(0))], [c.real("alpha", 0)]])
    phi = sx.obj([[SNum(z3.RealVal(0))], [c.real("phi")]])
    return alpha, phi


def _dist(c, tag, n):
    return D.DistributionFromValues(sx.sym_array(c, f"{tag}_v", (n,)), sx.sym_array(c, f"{tag}_w", (n,)))


def _same_polar(a, b, w):
    """a == w * b for unit phasor b (member value), a possibly carrying the weight"""
    if isinstance(a, Polar) and isinstance(b, Polar):
        return z3.And(a.amp == b.amp * w, sx.turns_mod1_eq(a.tau, b.tau))
    return z3.BoolVal(False)


def _aberrations(params, n):
    rp = R_AB(params)

    def fn(c):
        c.pc += sx.pi_axioms() + [LAM > 0]
        alpha, phi = _pixels(c)
        fixed = {"C12": c.real("C12"), "phi12": c.real("phi12")}
        c.assume(fixed["C12"] != 0)
        for p_ in params:
            fixed.pop(p_, None)
        dists = {p: _dist(c, p, n) for p in params}
        ens = TR.Aberrations(energy=100e3, **fixed, **dists)
        out = ens._evaluate_from_angular_grid(alpha, phi)
        ok = [out.shape == (n,) * len(params) + (2, 1)]
        md = ens.ensemble_axes_metadata
        mok = [len(md) == len(params)]
        order = [m.label for m in md]
        for idx in np.ndindex(*(n,) * len(params)):
            vals = {p: dists[p].values[i] for p, i in zip(order, idx)} if set(order) == set(params) else {}
            if not vals:
                ok.append(z3.BoolVal(False))
                continue
            sc = TR.Aberrations(energy=100e3, **fixed, **vals)
            ref = sc._evaluate_from_angular_grid(alpha, phi)
            w = z3.RealVal(1)
            for p, i in zip(order, idx):
                w = w * _z(dists[p].weights[i])
            for px in range(2):
                ok.append(_same_polar(out[idx + (px, 0)], ref[px, 0], w))
        for m in md:
            mok.append(zand(len(m.values) == n, *[_z(a) == _z(b) for a, b in zip(m.values, dists[m.label].values)]) if m.label in dists else z3.BoolVal(False))
        c.prove("aberrations.member_i_is_the_scalar_evaluation_with_value_i_times_its_weight", zand(*ok), replay=rp)
        c.prove("aberrations.axis_metadata_lists_the_values_in_order", zand(*mok), replay=rp)
    return fn


def R_AB(params):
    return make("""
    import abtem
    from abtem.distributions import from_values
    rng = np.random.default_rng(0)
    A = np.array([[0.0], [0.012]]); P = np.array([[0.0], [0.7]])
    scale = {'C10': 80.0, 'C30': 1e5, 'C21': 500.0, 'phi21': 1.0, 'C12': 30.0, 'phi12': 1.0, 'C23': 400.0}
    vals = {p: np.array([scale.get(p, 1.0) * (0.5 + k) for k in range(3)]) for p in PARAMS}
    base = {k: v for k, v in dict(C12=20.0, phi12=0.4).items() if k not in PARAMS}
    ens = abtem.transfer.Aberrations(energy=100e3, **base, **{p: from_values(v) for p, v in vals.items()})
    out = np.asarray(ens._evaluate_from_angular_grid(A, P))
    order = [m.label for m in ens.ensemble_axes_metadata]
    for m in ens.ensemble_axes_metadata:
        if tuple(m.values) != tuple(vals[m.label]): bad, why = True, f"axis {m.label} lists {m.values}, distribution has {vals[m.label]}"
    for idx in np.ndindex(*(3,) * len(PARAMS)):
        kw = {p: float(vals[p][i]) for p, i in zip(order, idx)}
        ref = np.asarray(abtem.transfer.Aberrations(energy=100e3, **base, **kw)._evaluate_from_angular_grid(A, P))
        if np.abs(out[idx] - ref).max() > 1e-4: bad, why = True, f"member {idx} ({kw}) differs from the scalar evaluation by {np.abs(out[idx] - ref).max()}"
""", PARAMS=tuple(params))


R_RV = make("""
    import abtem
    A = np.array([[0.0], [0.012]]); P = np.array([[0.0], [0.7]])
    vals = np.array([8.0, 14.0, 25.0]) if KIND == 'aperture' else np.array([10.0, 30.0, 60.0]) if KIND == 'temporal' else np.array([0.5, 1.0, 2.0])
    def mk(v):
        if KIND == 'aperture': return abtem.transfer.Aperture(semiangle_cutoff=v, soft=False, energy=100e3)
        if KIND == 'temporal': return abtem.transfer.TemporalEnvelope(focal_spread=v, energy=100e3)
        return abtem.transfer.SpatialEnvelope(angular_spread=v, energy=100e3, C10=50.0, C30=1e5)
    try:
        out = np.asarray(mk(vals)._evaluate_from_angular_grid(A, P))
        if out.shape != (3, 2, 1): bad, why = True, f"{KIND}: ensemble evaluation has shape {out.shape}, expected (3, 2, 1)"
        else:
            for i, v in enumerate(vals):
                ref = np.asarray(mk(float(v))._evaluate_from_angular_grid(A, P))
                if np.abs(out[i] - ref).max() > 1e-6: bad, why = True, f"{KIND}: member {i} differs from the scalar evaluation"
    except ValueError as ex:
        bad, why = True, f"{KIND} with a distribution raised {ex!r}"
""", KIND="aperture")


def _real_valued(kind, n):
    """aperture / envelopes with one distribution-valued parameter"""
    rp = (lambda m, k=kind: R_RV(m).replace("KIND = 'aperture'", f"KIND = {k!r}"))

    def fn(c):
        c.pc += sx.pi_axioms() + [LAM > 0]
        alpha, phi = _pixels(c)
        d = _dist(c, "p", n)
        if kind == "aperture":
            mk = lambda v: TR.Aperture(semiangle_cutoff=v, soft=False, energy=100e3)
            label = "semiangle_cutoff"
        elif kind == "temporal":
            mk = lambda v: TR.TemporalEnvelope(focal_spread=v, energy=100e3)
            label = None
        else:
            mk = lambda v: TR.SpatialEnvelope(angular_spread=v, energy=100e3, C10=c.real("C10"), C30=c.real("C30"))
            label = None
        ens = mk(d)
        try:
            out = np.asarray(ens._evaluate_from_angular_grid(alpha, phi), dtype=object)
        except ValueError as ex:
            c.prove(f"{kind}.member_i_is_the_scalar_evaluation_with_value_i", False, replay=rp, info=repr(ex))
            return
        ok = [out.shape == (n, 2, 1)]
        if ok[0]:
            for i in range(n):
                ref = np.asarray(mk(d.values[i])._evaluate_from_angular_grid(alpha, phi), dtype=object)
                for px in range(2):
                    a, b = out[i, px, 0], ref[px, 0]
                    a = sx._zb(a) if isinstance(a, sx.SBool) else _z(a)
                    b = sx._zb(b) if isinstance(b, sx.SBool) else _z(b)
                    if z3.is_bool(a) != z3.is_bool(b):
                        a = z3.If(a, 1, 0) if z3.is_bool(a) else a
                        b = z3.If(b, 1, 0) if z3.is_bool(b) else b
                    ok.append(a == b)
        md = ens.ensemble_axes_metadata
        c.prove(f"{kind}.member_i_is_the_scalar_evaluation_with_value_i", zand(*ok), replay=rp)
        c.prove(f"{kind}.axis_metadata_lists_the_values_in_order", zand(len(md) == 1, *[_z(a) == _z(b) for a, b in zip(md[0].values, d.values)]) if md else z3.BoolVal(False), replay=rp)
    return fn


def _tilt(mode, n):
    rp = R_T(mode)

    def fn(c):
        sx_ = c.real("tx"); sy_ = c.real("ty")
        dx = _dist(c, "dx", n); dy = _dist(c, "dy", n)
        if mode == "scalar_dist":
            t = TL.validate_tilt((sx_, dy))
            want = [[(sx_, dy.values[j]) for j in range(n)]]
        elif mode == "dist_scalar":
            t = TL.validate_tilt((dx, sy_))
            want = [[(dx.values[i], sy_)] for i in range(n)]
        elif mode == "dist_dist":
            t = TL.validate_tilt((dx, dy))
            want = [[(dx.values[i], dy.values[j]) for j in range(n)] for i in range(n)]
        else:
            t = TL.validate_tilt((sx_, sy_))
            want = [[(sx_, sy_)]]
        md = t.metadata
        axes = t.ensemble_axes_metadata
        bx, by = md.get("base_tilt_x", 0.0), md.get("base_tilt_y", 0.0)
        # effective tilt of member (i, j): base tilt + contribution of every tilt axis (what the propagator applies)
        shape = tuple(len(a.values) for a in axes)
        ok = []
        members = list(np.ndindex(*shape)) if shape else [()]
        flat_want = [w for row in want for w in row]
        ok.append(len(members) == len(flat_want))
        if len(members) == len(flat_want):
            for idx, (wx, wy) in zip(members, flat_want):
                ex, ey = _z(bx), _z(by)
                for a, i in zip(axes, idx):
                    tx_, ty_ = a.tilt[i]
                    ex, ey = ex + _z(tx_), ey + _z(ty_)
                ok.append(z3.And(_real(ex) == _real(_z(wx)), _real(ey) == _real(_z(wy))))
        c.prove("tilt.member_effective_tilt_is_scalar_plus_distribution_value", zand(*ok), replay=rp)
        if mode != "dist_dist":
            c.canary("tilt.canary_zero", zand(_z(bx) == 0, _z(by) == 0))
    return fn


def R_T(mode):
    return make("""
    import abtem
    tx, ty = float(np.clip(V.get('tx', 20.0), -40, 40)) or 15.0, float(np.clip(V.get('ty', -10.0), -40, 40)) or -12.0
    dvals = np.array([0.0, 12.0, -18.0])
    tilt = {'scalar_dist': (tx, dvals), 'dist_scalar': (dvals, ty), 'dist_dist': (dvals, dvals * 0.5), 'scalar_scalar': (tx, ty)}[MODE]
    pot = abtem.PotentialArray(np.zeros((6, 32, 32), np.float32), slice_thickness=4.0, sampling=0.2)
    scan = abtem.CustomScan([[3.2, 3.2]])
    w = abtem.Probe(energy=100e3, semiangle_cutoff=20, tilt=tilt).multislice(pot, scan=scan, lazy=False)
    arr = np.asarray(w.array).reshape((-1, 32, 32))
    xs = dvals if MODE in ('dist_scalar', 'dist_dist') else [tx]
    ys = (dvals * 0.5 if MODE == 'dist_dist' else dvals) if MODE in ('scalar_dist', 'dist_dist') else [ty]
    k = 0
    for x in xs:
        for y in ys:
            ref = np.asarray(abtem.Probe(energy=100e3, semiangle_cutoff=20, tilt=(float(x), float(y))).multislice(pot, scan=scan, lazy=False).array).reshape(32, 32)
            err = np.abs(arr[k] - ref).max()
            if err > 1e-4: bad, why = True, f"tilt {MODE}: member {k} (tilt {x},{y}) differs from the scalar run by {err}"
            k += 1
""", MODE=mode)


def cases(tier):
    q = tier == "quick"
    n = 2 if q else 3
    out = []
    for params in (("C10",), ("C30",), ("phi12",), ("C10", "C30"), ("C21", "phi21")) if q else (("C10",), ("C30",), ("phi12",), ("C10", "C30"), ("C21", "phi21"), ("C10", "C21", "C30")):
        out.append(Case("aberrations." + "_".join(params), _aberrations(params, n), setup=_setup, max_paths=400, timeout_ms=60000, budget_s=300 if q else 1800))
    for kind in ("aperture", "temporal", "spatial"):
        out.append(Case(f"{kind}.distribution", _real_valued(kind, n), setup=_setup, max_paths=400, timeout_ms=60000, budget_s=300 if q else 1800))
    for mode in ("scalar_dist", "dist_scalar", "dist_dist", "scalar_scalar"):
        out.append(Case(f"tilt.{mode}", _tilt(mode, n), setup=_setup))
    return out
