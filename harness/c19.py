"""C19 Ensemble partitioning reassembles every member exactly once."""
import itertools

import numpy as np
import z3

from engine import sx, patch, snp
from engine.run import Case
from engine.replay import make
from engine.sx import SNum, zand, _z
from harness.c02 import _seeds, R_SEEDS

PROPERTY = "C19"
BOUNDS = {
    "quick": "every chunking (all compositions per axis) of: GridScan up to 3x3 positions, LineScan up to 4, CustomScan up to 4 positions, a distribution-valued transform "
             "(one and two distributions of up to 4 / 3x2 values), FrozenPhonons seeds up to 4 configurations, Images with ensemble shape up to (3, 2) (linear + ordinal axes); "
             "start/end points, values, weights, seeds, offsets and samplings symbolic",
    "thorough": "sizes up to 5x3 / 6 / 6",
}
OUTSIDE = ["lazy partitioning (dask blockwise); the eager generate_blocks / _partition_args(lazy=False) code is the same slicing logic", "float32 rounding of scan positions"]
STUBS = ["np.linspace -> start + i*(stop-start)/div", "numpy RNG not involved (seeds compared, not displacements)"]
ASSUMPTIONS = ["chunk tuples are those validate_chunks accepts (positive, summing to the axis length)"]

import abtem.scan as S
import abtem.core.grid as G
import abtem.core.axes as AX
import abtem.transfer as TR
import abtem.distributions as D
import abtem.array as A
from abtem.measurements import Images
from abtem.core.axes import ScanAxis, NonLinearAxis


def _setup():
    for m in (S, G, AX, D):
        patch.patch(m)
    patch.set(A, "isinstance", sx.sisinstance)


def comps(n):
    for k in range(1, n + 1):
        for cuts in itertools.combinations(range(1, n), k - 1):
            b = (0,) + cuts + (n,)
            yield tuple(b[i + 1] - b[i] for i in range(k))


def _tiles(slices_list, shape):
    """the yielded slices tile the index range exactly once"""
    count = np.zeros(shape, dtype=int)
    for sl in slices_list:
        count[sl] += 1
    return bool(np.all(count == 1))


def _item(b):
    return b.item() if isinstance(b, np.ndarray) else b


def _gridscan(n0, n1):
    rp = R_GRID(n0, n1)

    def fn(c):
        st = (c.real("sx"), c.real("sy")); en = (c.real("ex"), c.real("ey"))
        c.assume(en[0] > st[0]); c.assume(en[1] > st[1])
        ep = (bool(c.bool("ep0")), bool(c.bool("ep1")))
        if (ep[0] and n0 == 1) or (ep[1] and n1 == 1):
            return
        sc = S.GridScan(start=st, end=en, gpts=(n0, n1), endpoint=ep)
        P = sc.get_positions()
        for ch0 in comps(n0):
            for ch1 in comps(n1):
                sls, ok = [], []
                for idx, sl, blk in sc.generate_blocks((ch0, ch1)):
                    b = _item(blk)
                    Pb = b.get_positions()
                    ref = P[sl]
                    sls.append(sl)
                    ok.append(Pb.shape == ref.shape)
                    if Pb.shape == ref.shape:
                        ok += [sx.zclose(Pb[i], ref[i], rtol=1e-12, atol=1e-300) for i in np.ndindex(ref.shape)]
                    md = b.ensemble_axes_metadata
                    ok += [sx.zclose(md[a].offset, SNum(_z(sc.start[a]) + sl[a].start * _z(sc.sampling[a])), rtol=1e-12, atol=1e-300) for a in range(2)]
                c.prove("gridscan.blocks_hold_their_positions_in_order", zand(_tiles(sls, (n0, n1)), *ok), replay=rp, info=str((ch0, ch1)))
        if n0 > 1:
            c.canary("gridscan.canary", _z(P[0, 0, 0]) == _z(P[-1, -1, 0]))
    return fn


def R_GRID(n0, n1):
    return make("""
    import abtem, itertools
    def comps(n):
        for k in range(1, n + 1):
            for cuts in itertools.combinations(range(1, n), k - 1):
                b = (0,) + cuts + (n,)
                yield tuple(b[i + 1] - b[i] for i in range(k))
    ep = (bool(V['ep0']), bool(V['ep1']))
    sc = abtem.GridScan(start=(float(V['sx']), float(V['sy'])), end=(float(V['ex']), float(V['ey'])), gpts=(N0, N1), endpoint=ep)
    P = np.asarray(sc.get_positions(), float); scale = np.abs(P).max() + 1e-300
    for ch0 in comps(N0):
        for ch1 in comps(N1):
            for idx, sl, blk in sc.generate_blocks((ch0, ch1)):
                b = blk.item() if isinstance(blk, np.ndarray) else blk
                Pb = np.asarray(b.get_positions(), float)
                if Pb.shape != P[sl].shape or np.abs(Pb - P[sl]).max() > 1e-5 * scale: bad, why = True, f"chunks {(ch0, ch1)} block {idx}: positions {Pb.tolist()} != {P[sl].tolist()}"
""", N0=n0, N1=n1)


def _linescan(n):
    rp = R_LINE(n)

    def fn(c):
        st = (c.real("sx"), c.real("sy")); en = (c.real("ex"), c.real("ey"))
        c.assume(sx.zor(_z(en[0]) != _z(st[0]), _z(en[1]) != _z(st[1])))
        ep = bool(c.bool("ep"))
        sc = S.LineScan(start=st, end=en, gpts=n, endpoint=ep)
        P = sc.get_positions()
        for ch in comps(n):
            sls, ok = [], []
            for idx, sl, blk in sc.generate_blocks((ch,)):
                b = _item(blk)
                Pb = b.get_positions()
                ref = P[sl]
                sls.append(sl)
                ok.append(Pb.shape == ref.shape)
                if Pb.shape == ref.shape:
                    ok += [_z(Pb[i]) == _z(ref[i]) for i in np.ndindex(ref.shape)]
            c.prove("linescan.blocks_hold_their_positions_in_order", zand(_tiles(sls, (n,)), *ok), replay=rp, info=str(ch))
    return fn


def R_LINE(n):
    return make("""
    import abtem, itertools
    def comps(n):
        for k in range(1, n + 1):
            for cuts in itertools.combinations(range(1, n), k - 1):
                b = (0,) + cuts + (n,)
                yield tuple(b[i + 1] - b[i] for i in range(k))
    sc = abtem.LineScan(start=(float(V['sx']), float(V['sy'])), end=(float(V['ex']), float(V['ey'])), gpts=N, endpoint=bool(V['ep']))
    P = np.asarray(sc.get_positions(), float); scale = np.abs(P).max() + 1e-300
    for ch in comps(N):
        for idx, sl, blk in sc.generate_blocks((ch,)):
            b = blk.item() if isinstance(blk, np.ndarray) else blk
            Pb = np.asarray(b.get_positions(), float)
            if Pb.shape != P[sl].shape or np.abs(Pb - P[sl]).max() > 1e-5 * scale: bad, why = True, f"chunks {ch} block {idx}: positions {Pb.tolist()} != {P[sl].tolist()}"
""", N=n)


def _customscan(n):
    def fn(c):
        pos = sx.sym_array(c, "p", (n, 2))
        sc = S.CustomScan.__new__(S.CustomScan)
        sc._positions = pos
        sc._squeeze = False
        for ch in comps(n):
            sls, ok = [], []
            for idx, sl, blk in sc.generate_blocks((ch,)):
                b = _item(blk)
                Pb = b.get_positions()
                ref = pos[sl]
                sls.append(sl)
                ok.append(Pb.shape == ref.shape)
                if Pb.shape == ref.shape:
                    ok += [_z(Pb[i]) == _z(ref[i]) for i in np.ndindex(ref.shape)]
            c.prove("customscan.blocks_hold_their_positions_in_order", zand(_tiles(sls, (n,)), *ok), replay=None, info=str(ch))
    return fn


def _distributions(shape):
    """a transform whose parameters are distributions: blocks carry the sub-distributions"""
    def fn(c):
        names = ("defocus", "Cs")[: len(shape)]
        dists = {}
        for nm, n in zip(names, shape):
            dists[nm] = D.DistributionFromValues(sx.sym_array(c, f"{nm}_v", (n,)), sx.sym_array(c, f"{nm}_w", (n,)))
        ab = TR.Aberrations(energy=100e3, **dists)
        keys = list(ab._distribution_properties.keys())
        for chs in itertools.product(*[list(comps(n)) for n in shape]):
            sls, ok = [], []
            for idx, sl, blk in ab.generate_blocks(tuple(chs)):
                b = _item(blk)
                sls.append(sl)
                for a, k in enumerate(keys):
                    sub = b._aberration_coefficients[k]
                    full = ab._aberration_coefficients[k]
                    ok.append(len(sub.values) == sl[a].stop - sl[a].start)
                    ok += [_z(x) == _z(y) for x, y in zip(sub.values, full.values[sl[a]])]
                    ok += [_z(x) == _z(y) for x, y in zip(sub.weights, full.weights[sl[a]])]
                md = b.ensemble_axes_metadata
                ok.append(len(md) == len(shape))
            c.prove("distributions.blocks_hold_their_values_and_weights_in_order", zand(_tiles(sls, shape), *ok), replay=None, info=str(chs))
    return fn


def _arrayobject(ens):
    rp = R_ARR(ens)

    def fn(c):
        arr = np.arange(int(np.prod(ens)) * 4, dtype=np.float32).reshape(ens + (2, 2))
        off = c.real("offset"); samp = c.real("sampling")
        vals = tuple(c.real(f"v{i}") for i in range(ens[1])) if len(ens) > 1 else ()
        axes = [ScanAxis(label="x", sampling=samp, offset=off)] + ([NonLinearAxis(label="p", values=vals)] if len(ens) > 1 else [])
        im = Images(arr, sampling=0.1, ensemble_axes_metadata=axes)
        for chs in itertools.product(*[list(comps(n)) for n in ens]):
            sls, ok = [], []
            for idx, sl, blk in im.generate_blocks(tuple(chs)):
                b = _item(blk)
                sls.append(sl)
                ok.append(bool(np.array_equal(np.asarray(b.array), arr[sl])))
                md = b.ensemble_axes_metadata
                ok.append(len(md) == len(ens))
                # member j of the block is member sl.start + j of the whole: same coordinate
                n_b = sl[0].stop - sl[0].start
                co_b = md[0].coordinates(n_b)
                co = axes[0].coordinates(ens[0])
                ok += [sx.zclose(co_b[j], co[sl[0].start + j], rtol=1e-12, atol=1e-300) for j in range(n_b)]
                if len(ens) > 1:
                    ok += [_z(x) == _z(y) for x, y in zip(md[1].values, vals[sl[1]])]
                    ok.append(len(md[1].values) == sl[1].stop - sl[1].start)
            c.prove("array_object.blocks_hold_their_members_and_axis_metadata", zand(_tiles(sls, ens), *ok), replay=rp, info=str(chs))
    return fn


def R_ARR(ens):
    return make("""
    import itertools
    from abtem.measurements import Images
    from abtem.core.axes import ScanAxis, NonLinearAxis
    def comps(n):
        for k in range(1, n + 1):
            for cuts in itertools.combinations(range(1, n), k - 1):
                b = (0,) + cuts + (n,)
                yield tuple(b[i + 1] - b[i] for i in range(k))
    arr = np.arange(int(np.prod(ENS)) * 4, dtype=np.float32).reshape(tuple(ENS) + (2, 2))
    off, samp = float(V['offset']), float(V['sampling'])
    vals = tuple(float(V[f'v{i}']) for i in range(ENS[1])) if len(ENS) > 1 else ()
    axes = [ScanAxis(label='x', sampling=samp, offset=off)] + ([NonLinearAxis(label='p', values=vals)] if len(ENS) > 1 else [])
    im = Images(arr, sampling=0.1, ensemble_axes_metadata=axes)
    co = np.asarray(axes[0].coordinates(ENS[0]))
    for chs in itertools.product(*[list(comps(n)) for n in ENS]):
        for idx, sl, blk in im.generate_blocks(tuple(chs)):
            b = blk.item() if isinstance(blk, np.ndarray) else blk
            if not np.array_equal(np.asarray(b.array), arr[sl]): bad, why = True, f"chunks {chs} block {idx}: array"
            nb = sl[0].stop - sl[0].start
            cb = np.asarray(b.ensemble_axes_metadata[0].coordinates(nb))
            if np.abs(cb - co[sl[0]]).max() > 1e-9 * (np.abs(co).max() + 1e-300): bad, why = True, f"chunks {chs} block {idx}: scan-axis coordinates {cb} but the members are {co[sl[0]]}"
            if len(ENS) > 1 and tuple(b.ensemble_axes_metadata[1].values) != vals[sl[1]]: bad, why = True, f"chunks {chs} block {idx}: ordinal values"
""", ENS=tuple(ens))


def cases(tier):
    q = tier == "quick"
    out = []
    for n0, n1 in ((1, 2), (2, 3), (3, 3)) if q else ((1, 2), (2, 3), (3, 3), (5, 3)):
        out.append(Case(f"gridscan.{n0}x{n1}", _gridscan(n0, n1), setup=_setup, budget_s=240 if q else 1500))
    for n in (1, 3, 4) if q else (1, 3, 4, 6):
        out.append(Case(f"linescan.{n}", _linescan(n), setup=_setup, budget_s=240 if q else 1500))
        out.append(Case(f"customscan.{n}", _customscan(n), setup=_setup))
    for shape in ((1,), (4,), (3, 2)) if q else ((1,), (4,), (3, 2), (6,), (4, 3)):
        out.append(Case("distributions." + "x".join(map(str, shape)), _distributions(shape), setup=_setup))
    for n in (1, 2, 3, 4) if q else (1, 2, 3, 4, 5, 6):
        out.append(Case(f"frozen_phonons_seeds.n{n}", _seeds(n)))
    for ens in ((1,), (4,), (3, 2)) if q else ((1,), (4,), (3, 2), (6,), (4, 3)):
        out.append(Case("array_object." + "x".join(map(str, ens)), _arrayobject(ens), setup=_setup))
    return out
