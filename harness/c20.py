"""C20 Scan positions have the geometry their parameters describe."""
import numpy as np
import z3

from engine import sx, patch, snp
from engine.run import Case
from engine.replay import make
from engine.sx import SNum, _z, _real, zand

PROPERTY = "C20"
BOUNDS = {
    "quick": "GridScan/LineScan constructed from symbolic start/end and either gpts (case-split 1..3 per axis, 1..4 for lines) or a symbolic sampling "
             "(ceil(extent/sampling) <= 3), both endpoint flags, followed by at most one assignment to start/end/gpts/sampling with a symbolic argument; "
             "shift kernel on 2x3 and 3x4 grids for one symbolic position",
    "thorough": "gpts up to 4 per axis (6 for lines), up to two successive assignments",
}
OUTSIDE = ["fractional coordinates relative to a potential", "match_probe's Nyquist default (depends on the probe cutoff)", "float round-off",
           "the periodic shift itself is stated in Fourier space: kernel(r)[k] = exp(-2 pi i k.r); FFT values are not modelled here (C15 decides shift = roll)"]
STUBS = ["np.linspace -> start + i*(stop-start)/div, last pinned to stop", "np.ceil -> integer ceiling", "np.linalg.norm -> sqrt model (r>=0, r*r=x)",
         "complex_exponential(x) -> unit phasor with turn count x/(2 PI)"]
ASSUMPTIONS = ["end > start componentwise for GridScan; end != start for LineScan", "gpts >= 1, sampling > 0"]

import abtem.scan as S
import abtem.core.grid as G
import abtem.core.fft as F
import abtem.core.axes as AX


def _setup():
    patch.patch(S)
    patch.patch(G)
    patch.patch(F)
    patch.set(F, "complex_exponential", snp.complex_exponential)


def _lin(a, b, n, ep, i):
    div = (n - 1) if ep else n
    if div == 0:
        return _z(a)
    return _z(a) + (_z(b) - _z(a)) * z3.RealVal(i) / z3.RealVal(div)


def _grid_obligations(c, sc, rp, tag="grid"):
    """positions / spacing / end points / axes metadata of a fully defined GridScan"""
    n0, n1 = (int(x) for x in sc.gpts)
    ep = sc.endpoint
    P = sc.get_positions()
    st, en, d = sc.start, sc.end, sc.sampling
    ok = [P.shape == (n0, n1, 2)]
    if P.shape == (n0, n1, 2):
        for i in range(n0):
            for j in range(n1):
                ok += [sx.zclose(P[i, j, 0], SNum(_z(st[0]) + i * _z(d[0])), rtol=1e-12, atol=1e-300),
                       sx.zclose(P[i, j, 1], SNum(_z(st[1]) + j * _z(d[1])), rtol=1e-12, atol=1e-300)]
    c.prove(f"{tag}.positions_equally_spaced_by_reported_sampling_from_start", zand(*ok), replay=rp)
    ends = []
    for a, n in ((0, n0), (1, n1)):
        last = _z(st[a]) + (n - 1) * _z(d[a])
        if ep[a] and n > 1:
            ends.append(last == _z(en[a]))
        elif not ep[a]:
            ends.append(last == _z(en[a]) - _z(d[a]))
    c.prove(f"{tag}.last_position_is_end_or_one_step_short", zand(*ends), replay=rp)
    md = sc.ensemble_axes_metadata
    mok = [len(md) == 2]
    for a, n in ((0, n0), (1, n1)):
        co = md[a].coordinates(n)
        mok += [_z(co[i]) == (_z(P[i, 0, 0]) if a == 0 else _z(P[0, i, 1])) for i in range(n)]
    c.prove(f"{tag}.axes_metadata_lists_positions", zand(*mok), replay=rp)
    c.prove(f"{tag}.len", len(sc) == n0 * n1 and sc.shape == (n0, n1), replay=rp)


def _gridscan(mode, N, op):
    rp = R_GRID(mode, op)

    def fn(c):
        st = (c.real("sx"), c.real("sy"))
        en = (c.real("ex"), c.real("ey"))
        c.assume(en[0] > st[0])
        c.assume(en[1] > st[1])
        ep = (bool(c.bool("ep0")), bool(c.bool("ep1")))
        if mode == "gpts":
            g = (c.int("n0", 1, N), c.int("n1", 1, N))
            for a in range(2):
                c.assume(g[a] - (1 if ep[a] else 0) >= 1)
            sc = S.GridScan(start=st, end=en, gpts=g, endpoint=ep)
        else:
            d = (c.real("d0", 0, lo_strict=True), c.real("d1", 0, lo_strict=True))
            for a in range(2):
                c.assume((_z(en[a]) - _z(st[a])) <= (N - (1 if ep[a] else 0)) * _z(d[a]))
                if ep[a]:
                    c.assume((_z(en[a]) - _z(st[a])) > 0 * _z(d[a]))
            sc = S.GridScan(start=st, end=en, sampling=d, endpoint=ep)
        if op is not None:
            if op == "start":
                v = (c.real("vx"), c.real("vy"))
                c.assume(v[0] < en[0]); c.assume(v[1] < en[1])
                c.assume(_z(en[0]) - _z(v[0]) <= 2 * (_z(en[0]) - _z(st[0])))
                c.assume(_z(en[1]) - _z(v[1]) <= 2 * (_z(en[1]) - _z(st[1])))
                sc.start = v
            elif op == "end":
                v = (c.real("vx"), c.real("vy"))
                c.assume(v[0] > st[0]); c.assume(v[1] > st[1])
                c.assume(_z(v[0]) - _z(st[0]) <= 2 * (_z(en[0]) - _z(st[0])))
                c.assume(_z(v[1]) - _z(st[1]) <= 2 * (_z(en[1]) - _z(st[1])))
                sc.end = v
            elif op == "gpts":
                v = (c.int("v0", 1, N), c.int("v1", 1, N))
                for a in range(2):
                    c.assume(v[a] - (1 if ep[a] else 0) >= 1)
                sc.gpts = v
            elif op == "sampling":
                v = (c.real("v0", 0, lo_strict=True), c.real("v1", 0, lo_strict=True))
                for a in range(2):
                    c.assume((_z(en[a]) - _z(st[a])) <= (N - (1 if ep[a] else 0)) * _z(v[a]))
                sc.sampling = v
        n = sc.gpts
        c.output("d0", sc.sampling[0])
        c.output("n0", n[0])
        _grid_obligations(c, sc, rp)
        if mode == "gpts" and op is None:
            c.prove("grid.gpts_as_given", zand(_z(sc.gpts[0]) == _z(g[0]), _z(sc.gpts[1]) == _z(g[1])), replay=rp)
        c.canary("grid.canary_endpoint_ignored", _z(sc.sampling[0]) * _z(sc.gpts[0]) == _z(sc.end[0]) - _z(sc.start[0]))
    return fn


def R_GRID(mode, op):
    return make("""
    import abtem
    st = (float(V['sx']), float(V['sy'])); en = (float(V['ex']), float(V['ey'])); ep = (bool(V['ep0']), bool(V['ep1']))
    if MODE == 'gpts': sc = abtem.GridScan(start=st, end=en, gpts=(int(V['n0']), int(V['n1'])), endpoint=ep)
    else: sc = abtem.GridScan(start=st, end=en, sampling=(float(V['d0']), float(V['d1'])), endpoint=ep)
    if OP in ('start', 'end'): setattr(sc, OP, (float(V['vx']), float(V['vy'])))
    elif OP == 'gpts': sc.gpts = (int(V['v0']), int(V['v1']))
    elif OP == 'sampling': sc.sampling = (float(V['v0']), float(V['v1']))
    P = np.asarray(sc.get_positions(), dtype=float); n0, n1 = sc.gpts; d = sc.sampling; st = sc.start; en = sc.end
    scale = max(abs(st[0]), abs(st[1]), abs(en[0]), abs(en[1]), 1e-300)
    tol = 1e-5 * scale   # positions are float32
    ref = np.stack(np.meshgrid(st[0] + np.arange(n0) * d[0], st[1] + np.arange(n1) * d[1], indexing='ij'), -1)
    if P.shape != (n0, n1, 2) or np.abs(P - ref).max() > tol: bad, why = True, f"positions not start + i*sampling: {P.tolist()} vs {ref.tolist()} (sampling {d})"
    for a, n in ((0, n0), (1, n1)):
        last = st[a] + (n - 1) * d[a]
        if ep[a] and n > 1 and abs(last - en[a]) > tol: bad, why = True, f"axis {a}: last position {last} != end {en[a]}"
        if not ep[a] and abs(last - (en[a] - d[a])) > tol: bad, why = True, f"axis {a}: last position {last} != end - sampling {en[a] - d[a]}"
        co = sc.ensemble_axes_metadata[a].coordinates(n)
        pp = P[:, 0, 0] if a == 0 else P[0, :, 1]
        if np.abs(np.asarray(co) - pp).max() > tol: bad, why = True, f"axis metadata coordinates {co} != positions {pp}"
    if len(sc) != n0 * n1: bad, why = True, "len"
""", MODE=mode, OP=op)


def _grid_conc(v):
    sc = S.GridScan(start=(v["sx"], v["sy"]), end=(v["ex"], v["ey"]), gpts=(v["n0"], v["n1"]), endpoint=(v["ep0"], v["ep1"]))
    return {"d0": sc.sampling[0], "n0": sc.gpts[0]}


def _line_obligations(c, sc, rp):
    n = int(sc.gpts)
    ep = sc.endpoint
    P = sc.get_positions()
    st, en, d = sc.start, sc.end, sc.sampling
    ok = [P.shape == (n, 2)]
    if P.shape == (n, 2):
        for i in range(n):
            ok += [_z(P[i, 0]) == _lin(st[0], en[0], n, ep, i), _z(P[i, 1]) == _lin(st[1], en[1], n, ep, i)]
    c.prove("line.positions_on_line_from_start", zand(*ok), replay=rp)
    if n > 1:
        sp = [(_z(P[i + 1, 0]) - _z(P[i, 0])) * (_z(P[i + 1, 0]) - _z(P[i, 0])) + (_z(P[i + 1, 1]) - _z(P[i, 1])) * (_z(P[i + 1, 1]) - _z(P[i, 1]))
              == _z(d) * _z(d) for i in range(n - 1)]
        c.prove("line.spaced_by_reported_sampling", zand(_z(d) > 0, *sp), replay=rp)
        if ep:
            c.prove("line.ends_at_end", zand(_z(P[n - 1, 0]) == _z(en[0]), _z(P[n - 1, 1]) == _z(en[1])), replay=rp)
    if not ep:
        # one step short: last + (end-start)/n == end
        c.prove("line.one_step_short", zand(*[_z(P[n - 1, a]) + (_z(en[a]) - _z(st[a])) / n == _z(en[a]) for a in range(2)]), replay=rp)
        ext2 = (_z(en[0]) - _z(st[0])) ** 2 + (_z(en[1]) - _z(st[1])) ** 2
        c.prove("line.reported_sampling_is_extent_over_gpts", zand(_z(d) > 0, _z(d) * _z(d) * n * n == ext2), replay=rp)
    md = sc.ensemble_axes_metadata
    c.prove("line.axis_metadata_sampling", zand(len(md) == 1, _z(md[0].sampling) == _z(d), _z(md[0].offset) == 0), replay=rp)
    c.prove("line.len", sc.shape == (n,), replay=rp)


def _linescan(mode, N, op):
    rp = R_LINE(mode, op)

    def fn(c):
        st = (c.real("sx", -10, 10), c.real("sy", -10, 10))
        en = (c.real("ex", -10, 10), c.real("ey", -10, 10))
        c.assume(sx.zor(_z(en[0]) != _z(st[0]), _z(en[1]) != _z(st[1])))
        ep = bool(c.bool("ep"))
        ext2 = lambda a, b: (_z(b[0]) - _z(a[0])) ** 2 + (_z(b[1]) - _z(a[1])) ** 2
        if mode == "gpts":
            g = c.int("n", 1, N)
            sc = S.LineScan(start=st, end=en, gpts=g, endpoint=ep)
        else:
            d = c.real("d", 0, lo_strict=True)
            c.assume(ext2(st, en) <= (N * _z(d)) ** 2)
            sc = S.LineScan(start=st, end=en, sampling=d, endpoint=ep)
        if op in ("start", "end"):
            v = (c.real("vx", -10, 10), c.real("vy", -10, 10))
            other = en if op == "start" else st
            c.assume(sx.zor(_z(v[0]) != _z(other[0]), _z(v[1]) != _z(other[1])))
            if mode == "sampling":
                c.assume(ext2(v, other) <= (N * _z(d)) ** 2)
            else:
                c.assume(ext2(v, other) <= 4 * ext2(st, en))
            setattr(sc, op, v)
        elif op == "gpts":
            sc.gpts = c.int("v", 1, N)
        elif op == "sampling":
            v = c.real("v", 0, lo_strict=True)
            c.assume(ext2(st, en) <= (N * _z(v)) ** 2)
            sc.sampling = v
        c.output("n", sc.gpts)
        _line_obligations(c, sc, rp)
        if mode == "gpts" and op is None:
            c.prove("line.gpts_as_given", _z(sc.gpts) == _z(g), replay=rp)
        c.canary("line.canary", _z(sc.sampling) * _z(sc.gpts) * _z(sc.sampling) * _z(sc.gpts) == ext2(sc.start, sc.end))
    return fn


def R_LINE(mode, op):
    return make("""
    import abtem
    st = (float(V['sx']), float(V['sy'])); en = (float(V['ex']), float(V['ey'])); ep = bool(V['ep'])
    if MODE == 'gpts': sc = abtem.LineScan(start=st, end=en, gpts=int(V['n']), endpoint=ep)
    else: sc = abtem.LineScan(start=st, end=en, sampling=float(V['d']), endpoint=ep)
    if OP in ('start', 'end'): setattr(sc, OP, (float(V['vx']), float(V['vy'])))
    elif OP == 'gpts': sc.gpts = int(V['v'])
    elif OP == 'sampling': sc.sampling = float(V['v'])
    P = np.asarray(sc.get_positions(), dtype=float); n = sc.gpts; d = sc.sampling; st = np.array(sc.start); en = np.array(sc.end)
    L = np.linalg.norm(en - st); tol = 1e-5 * max(np.abs(st).max(), np.abs(en).max(), L)
    div = (n - 1) if (ep and n > 1) else n
    ref = st[None] + (en - st)[None] * np.arange(n)[:, None] / (div if not (ep and n == 1) else 1)
    if P.shape != (n, 2) or np.abs(P - ref).max() > tol: bad, why = True, f"positions {P.tolist()} vs {ref.tolist()}"
    if n > 1 and np.abs(np.linalg.norm(np.diff(P, axis=0), axis=1) - d).max() > tol: bad, why = True, f"spacing {np.linalg.norm(np.diff(P, axis=0), axis=1)} != reported sampling {d}"
    if not ep and abs(d * n - L) > tol: bad, why = True, f"sampling {d} * gpts {n} != extent {L}"
    md = sc.ensemble_axes_metadata
    if len(md) != 1 or abs(md[0].sampling - d) > 1e-12 * d: bad, why = True, f"axis metadata sampling {md[0].sampling} != {d}"
""", MODE=mode, OP=op)


def _kernel(shape):
    rp = R_KERNEL(shape)

    class W:
        device = "cpu"

        def __init__(self, gpts, sampling):
            self.grid = G.Grid(gpts=gpts, sampling=sampling)
            self.gpts = gpts
            self._valid_gpts = gpts
            self.sampling = sampling

    def fn(c):
        c.pc += sx.pi_axioms()
        samp = (c.real("dx", 0, lo_strict=True), c.real("dy", 0, lo_strict=True))
        r = (c.real("rx"), c.real("ry"))
        sc = S.CustomScan.__new__(S.CustomScan)
        sc._positions = sx.obj([[r[0], r[1]]])
        sc._squeeze = False
        K = sc._evaluate_kernel(W(shape, samp))
        ok = [K.shape == (1,) + tuple(shape)]
        for i in range(shape[0]):
            for j in range(shape[1]):
                ki = i if i < (shape[0] + 1) // 2 else i - shape[0]
                kj = j if j < (shape[1] + 1) // 2 else j - shape[1]
                # exp(-2 pi i (k_x r_x + k_y r_y)), k = index / extent
                want = -(z3.RealVal(ki) * _z(r[0]) / (shape[0] * _z(samp[0])) + z3.RealVal(kj) * _z(r[1]) / (shape[1] * _z(samp[1])))
                e = K[0, i, j]
                ok.append(zand(e.amp == 1, sx.turns_mod1_eq(e.tau, want)))
        c.prove("kernel.is_shift_theorem_phase_of_position", zand(*ok), replay=rp)
        c.prove("kernel.origin_is_identity_factor_composition", zand(*[sx.turns_mod1_eq((K[0, i, j] * K[0, i, j].conjugate()).tau, 0)
                                                                       for i in range(shape[0]) for j in range(shape[1])]), replay=rp)
        c.canary("kernel.canary_sign", sx.turns_mod1_eq(K[0, 0, 1].tau, _z(r[1]) / (shape[1] * _z(samp[1]))))
    return fn


def R_KERNEL(shape):
    return make("""
    import abtem
    from abtem.scan import CustomScan
    dx, dy, rx, ry = float(V['dx']), float(V['dy']), float(V['rx']), float(V['ry'])
    w = abtem.PlaneWave(gpts=SHAPE, sampling=(dx, dy), energy=100e3).build(lazy=False)
    K = np.asarray(CustomScan([[rx, ry]])._evaluate_kernel(w))[0]
    kx = np.fft.fftfreq(SHAPE[0], dx); ky = np.fft.fftfreq(SHAPE[1], dy)
    ref = np.exp(-2j * np.pi * (kx[:, None] * rx + ky[None] * ry))
    ph = max(1.0, abs(rx / dx), abs(ry / dy))
    if K.shape != ref.shape or np.abs(K - ref).max() > 1e-4 * ph: bad, why = True, f"kernel differs from exp(-2 pi i k.r) by {np.abs(K - ref).max()}"
""", SHAPE=tuple(shape))


def cases(tier):
    q = tier == "quick"
    N = 3 if q else 4
    NL = 4 if q else 6
    out = []
    vec = [{"sx": 0.5, "sy": 1.0, "ex": 4.5, "ey": 7.0, "n0": 2, "n1": 3, "ep0": False, "ep1": True}]
    for mode in ("gpts", "sampling"):
        for op in (None, "start", "end", "gpts", "sampling"):
            out.append(Case(f"gridscan.{mode}.{op or 'init'}", _gridscan(mode, N, op), setup=_setup, max_paths=6000,
                            concrete=_grid_conc if (mode == "gpts" and op is None) else None,
                            vectors=vec if (mode == "gpts" and op is None) else (), budget_s=200 if q else 1500))
            nl = NL if not (mode == "sampling" and op in ("start", "end")) else (2 if q else 3)
            out.append(Case(f"linescan.{mode}.{op or 'init'}", _linescan(mode, nl, op), setup=_setup, max_paths=6000,
                            budget_s=150 if q else 1500))
    for shape in ((2, 3), (3, 4)) if q else ((2, 3), (3, 4), (4, 5)):
        out.append(Case(f"kernel.{shape[0]}x{shape[1]}", _kernel(shape), setup=_setup))
    return out
