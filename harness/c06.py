"""C06 PRISM reduction reproduces conventional multislice probes (coefficients and cropping; linearity of multislice assumed)."""
import numpy as np
import z3

from engine import sx, patch, snp
from engine.run import Case
from engine.replay import make
from engine.sx import SNum, SComplex, Polar, zand, _z, _real
from harness import c21 as H21

PROPERTY = "C06"
BOUNDS = {
    "quick": "CTF coefficients for 2 symbolic wave vectors with a hard aperture and symbolic defocus, Cs, astigmatism (C12, phi12) and coma (C21, phi21); position coefficients "
             "for symbolic positions / grid scans and wave vectors; wrapped windows: arrays up to 4x5, symbolic corner in [-H, 2H) and size <= shape (all case-split); "
             "minimum_crop + batch_crop for 1 and 2 symbolic positions on a 5x6 array with 2x3 / 3x3 windows",
    "thorough": "4 wave vectors, all aberration orders up to 3; arrays up to 6x6",
}
OUTSIDE = ["equality of the two SIMULATIONS follows from linearity of multislice in the incident wave once the plane-wave coefficients and the cropping agree (not checked)",
           "S-matrix construction (plane waves through multislice)", "interpolation factors > 1 beyond the window index logic", "lazy evaluation"]
STUBS = ["complex_exponential -> unit phasor", "np.arctan2 -> atan2 model", "np.sqrt -> exact", "energy2wavelength -> symbolic positive", "SMatrixArray -> stand-in object exposing wave_vectors only"]
ASSUMPTIONS = ["crop windows start below the array end and reach at least index 0 (corner < n, corner + size >= 1), as produced by minimum_crop for positions inside the array", "the equivalent probe has plane-wave amplitudes aperture(k) exp(-2 pi i chi(k)/lambda) normalised to unit total intensity (what Probe.build applies)"]

import abtem.prism.s_matrix as SM
import abtem.prism.utils as PU
import abtem.transfer as TR
import abtem.scan as SC
import abtem.core.grid as G

LAM = H21.LAM


def _setup():
    H21._setup()
    patch.patch(SM)
    patch.patch(PU)
    patch.patch(SC)
    patch.patch(G)
    patch.set(SM, "complex_exponential", snp.complex_exponential)
    patch.set(PU, "complex_exponential", snp.complex_exponential)


class _S:
    def __init__(self, wv):
        self.wave_vectors = wv

    _calculate_ctf_coefficients = SM.SMatrixArray._calculate_ctf_coefficients
    _calculate_positions_coefficients = SM.SMatrixArray._calculate_positions_coefficients


def _ctf(K, syms):
    rp = R_CTF(syms)

    def fn(c):
        c.pc += sx.pi_axioms() + [LAM > 0]
        wv = sx.sym_array(c, "k", (K, 2))
        coef = {s: c.real(s) for s in syms}
        for s in syms:
            if s.startswith("C"):
                c.assume(coef[s] != 0)
        cut = c.real("cutoff", 0, lo_strict=True)
        # at least the first wave vector is inside the aperture
        c.assume((_z(wv[0, 0]) ** 2 + _z(wv[0, 1]) ** 2) * LAM * LAM < (_z(cut) * _z(1e-3)) ** 2)
        ctf = TR.CTF(semiangle_cutoff=cut, soft=False, energy=100e3, **coef)
        try:
            out = _S(wv)._calculate_ctf_coefficients(ctf)
        except (TypeError, AttributeError, NotImplementedError) as ex:
            # the code left the algebra the models cover (e.g. a complex square root): let the concrete replay decide
            c.prove("ctf_coefficients.computable_in_the_phasor_model", False, replay=rp, info=repr(ex))
            return
        out = np.asarray(out, dtype=object).ravel()
        tot = sum((sx.cabs2(x) for x in out), z3.RealVal(0))
        c.prove("ctf_coefficients.unit_total_intensity", tot == 1, replay=rp)
        ins = []
        sh = patch.shim()
        alphas = sh.sqrt(wv[:, 0] ** 2 + wv[:, 1] ** 2) * SNum(LAM)   # built exactly as the code does: same sqrt terms
        phis = sh.arctan2(wv[:, 1], wv[:, 0])
        for k in range(K):
            alpha, phi = alphas[k], phis[k]
            want = -H21._chi(coef, alpha, phi) / LAM
            inside = _z(alpha) <= _z(cut) * _z(1e-3)
            e = out[k]
            if isinstance(e, Polar):
                c.prove("ctf_coefficients.phase_is_minus_chi_over_lambda", sx.turns_mod1_eq(e.tau, want), replay=rp, info=k)
                c.prove("ctf_coefficients.positive_modulus_inside_aperture", z3.Implies(inside, e.amp > 0), replay=rp, info=k)
                c.prove("ctf_coefficients.zero_outside_aperture", z3.Implies(z3.Not(inside), e.amp == 0), replay=rp, info=k)
                ins.append((inside, e.amp))
            else:
                c.prove("ctf_coefficients.phase_is_minus_chi_over_lambda", False, replay=rp, info=k)
        # equal weights for all beams inside a hard aperture
        for (i0, a0), (i1, a1) in zip(ins, ins[1:]):
            c.prove("ctf_coefficients.equal_modulus_inside_hard_aperture", z3.Implies(z3.And(i0, i1), a0 == a1), replay=rp)
        e = out[0]
        c.canary("ctf_coefficients.canary_no_phase", sx.turns_mod1_eq(e.tau, 0) if isinstance(e, Polar) else z3.BoolVal(True))
    return fn


def R_CTF(syms):
    return make("""
    import abtem, ase
    from abtem.core.energy import energy2wavelength
    coef = {s: float(V[s]) for s in SYMS}
    # physical magnitudes: the identity is checked end to end, PRISM (no interpolation) against a multislice probe
    scale = {'C10': 60.0, 'C12': 40.0, 'C21': 800.0, 'C23': 600.0, 'C30': 2e5, 'C32': 1e5, 'C34': 1e5}
    cf = {k: (np.sign(v or 1.0) * scale[k] if k[0] == 'C' else (v % (2 * np.pi))) for k, v in coef.items()}
    atoms = ase.build.bulk('Si', cubic=True) * (2, 2, 1)
    pot = abtem.Potential(atoms, gpts=48, slice_thickness=2)
    scan = abtem.CustomScan([[1.3, 2.1], [4.0, 0.7]])
    ctf = abtem.CTF(semiangle_cutoff=20, energy=100e3, **cf)
    S = abtem.SMatrix(potential=pot, energy=100e3, semiangle_cutoff=20, downsample=False)
    a = np.asarray(S.build(lazy=False).reduce(scan=scan, ctf=ctf).array)
    b = np.asarray(abtem.Probe(energy=100e3, semiangle_cutoff=20, **cf).multislice(pot, scan=scan, lazy=False).array)
    err = np.abs(a - b).max() / np.abs(b).max()
    if err > 1e-3: bad, why = True, f"PRISM reduction with CTF {cf} differs from the multislice probe by {err}"
""", SYMS=tuple(syms))


def _positions(K, mode):
    def fn(c):
        c.pc += sx.pi_axioms()
        wv = sx.sym_array(c, "k", (K, 2))
        s = _S(wv)
        if mode == "custom":
            P = sx.sym_array(c, "r", (2, 2))
            sc = SC.CustomScan.__new__(SC.CustomScan)
            sc._positions = P
            sc._squeeze = False
            out = s._calculate_positions_coefficients(sc)
            ok = [out.shape == (2, K)]
            for j in range(2):
                for k in range(K):
                    ok.append(sx.phasor_turns_eq(out[j, k], -(_z(P[j, 0]) * _z(wv[k, 0]) + _z(P[j, 1]) * _z(wv[k, 1]))))
        else:
            st = (c.real("sx"), c.real("sy")); en = (c.real("ex"), c.real("ey"))
            c.assume(en[0] > st[0]); c.assume(en[1] > st[1])
            sc = SC.GridScan(start=st, end=en, gpts=(2, 3), endpoint=False)
            out = s._calculate_positions_coefficients(sc)
            P = sc.get_positions()
            ok = [out.shape == (2, 3, K)]
            for i in range(2):
                for j in range(3):
                    for k in range(K):
                        ok.append(sx.phasor_turns_eq(out[i, j, k], -(_z(P[i, j, 0]) * _z(wv[k, 0]) + _z(P[i, j, 1]) * _z(wv[k, 1]))))
        for n, f in enumerate(ok):
            c.prove("position_coefficients.are_exp_minus_2pi_i_k_dot_r", f, replay=None, info=n)
    return fn


def _wrapped(shape):
    rp = R_WR(shape)

    def fn(c):
        H, W = shape
        A = np.arange(2 * H * W).reshape(2, H, W)
        c0 = c.int("c0", -H, 2 * H - 1); c1 = c.int("c1", -W, 2 * W - 1)
        s0 = c.int("s0", 1, H); s1 = c.int("s1", 1, W)
        # windows as minimum_crop produces them for positions inside the array: they reach a non-negative index
        c.assume(c0 + s0 >= 1); c.assume(c1 + s1 >= 1); c.assume(c0 < H); c.assume(c1 < W)
        corner = (int(c0), int(c1)); size = (int(s0), int(s1))
        try:
            out = PU.wrapped_crop_2d(A, corner, size)
        except Exception as ex:
            c.prove("wrapped_crop.no_exception", False, replay=rp, info=repr(ex))
            return
        ref = A[:, (corner[0] + np.arange(size[0]))[:, None] % H, (corner[1] + np.arange(size[1]))[None] % W]
        c.prove("wrapped_crop.is_periodic_window", out.shape == ref.shape and bool(np.array_equal(out, ref)), replay=rp)
    return fn


def R_WR(shape):
    return make("""
    from abtem.prism.utils import wrapped_crop_2d
    H, W = SHAPE; A = np.arange(2 * H * W).reshape(2, H, W)
    corner = (int(V['c0']), int(V['c1'])); size = (int(V['s0']), int(V['s1']))
    try:
        out = wrapped_crop_2d(A, corner, size)
        ref = A[:, (corner[0] + np.arange(size[0]))[:, None] % H, (corner[1] + np.arange(size[1]))[None] % W]
        if out.shape != ref.shape or not np.array_equal(out, ref): bad, why = True, f"wrapped_crop_2d(corner={corner}, size={size}) on {SHAPE}: {out.tolist()} expected {ref.tolist()}"
    except Exception as ex:
        bad, why = True, f"wrapped_crop_2d(corner={corner}, size={size}) raised {ex!r}"
""", SHAPE=tuple(shape))


def _windows(npos, wshape):
    rp = R_WIN(npos, wshape)
    H, W = 5, 6

    def fn(c):
        A = np.arange(H * W).reshape(1, H, W)
        P = sx.sym_array(c, "p", (npos, 2))
        for j in range(npos):
            c.assume(P[j, 0] >= 0); c.assume(P[j, 0] < H); c.assume(P[j, 1] >= 0); c.assume(P[j, 1] < W)
        for j in range(1, npos):
            # positions of one batch lie within a window of each other (a scan block)
            for d in range(2):
                c.assume(_z(P[j, d]) - _z(P[0, d]) <= 2); c.assume(_z(P[0, d]) - _z(P[j, d]) <= 2)
        try:
            crop_corner, size, corners = PU.minimum_crop(P, wshape)
            crop_corner = tuple(int(x) for x in crop_corner); size = tuple(int(x) for x in size)
            cor = np.array([[int(x) for x in row] for row in np.asarray(corners, dtype=object)])
            arr = PU.wrapped_crop_2d(A, crop_corner, size)
            arr = np.repeat(arr, npos, axis=0)
            out = PU.batch_crop_2d(arr, cor, wshape)
        except Exception as ex:
            c.prove("windows.no_exception", False, replay=rp, info=repr(ex))
            return
        ok = out.shape == (npos,) + tuple(wshape)
        if ok:
            for j in range(npos):
                r0 = c.concretize(sx._round_half_even(_real(_z(P[j, 0])) - wshape[0] // 2))  # xp.rint: half to even
                r1 = c.concretize(sx._round_half_even(_real(_z(P[j, 1])) - wshape[1] // 2))
                ref = A[0][(r0 + np.arange(wshape[0]))[:, None] % H, (r1 + np.arange(wshape[1]))[None] % W]
                ok = ok and bool(np.array_equal(out[j], ref))
        c.prove("windows.every_probe_window_is_the_periodic_window_at_its_rounded_position", ok, replay=rp)
    return fn


def R_WIN(npos, wshape):
    return make("""
    from abtem.prism.utils import minimum_crop, wrapped_crop_2d, batch_crop_2d
    H, W = 5, 6; A = np.arange(H * W).reshape(1, H, W)
    P = np.array([[float(V[f'p_{j}_0']), float(V[f'p_{j}_1'])] for j in range(NPOS)])
    P = np.floor(P) + np.where(np.abs(P - np.floor(P) - 0.5) < 1e-6, 0.25, P - np.floor(P))   # avoid exact .5 (round-half-even)
    try:
        cc, size, cor = minimum_crop(P, WSHAPE)
        out = batch_crop_2d(np.repeat(wrapped_crop_2d(A, cc, size), NPOS, axis=0), cor, WSHAPE)
        for j in range(NPOS):
            r = np.rint(P[j] - np.array(WSHAPE) // 2).astype(int)
            ref = A[0][(r[0] + np.arange(WSHAPE[0]))[:, None] % H, (r[1] + np.arange(WSHAPE[1]))[None] % W]
            if not np.array_equal(out[j], ref): bad, why = True, f"window of position {P[j]}: {out[j].tolist()} expected {ref.tolist()}"
    except Exception as ex:
        bad, why = True, f"raised {ex!r}"
""", NPOS=npos, WSHAPE=tuple(wshape))


def cases(tier):
    q = tier == "quick"
    out = []
    for K, syms in ((2, ("C10", "C30")), (2, ("C10", "C12", "phi12")), (2, ("C21", "phi21"))) if q else \
            ((2, ("C10", "C30")), (2, ("C10", "C12", "phi12")), (2, ("C21", "phi21")), (3, ("C10", "C21", "phi21")), (3, ("C23", "phi23", "C32", "phi32")), (4, ("C10", "C30"))):
        out.append(Case(f"ctf_coefficients.k{K}." + "_".join(syms), _ctf(K, syms), setup=_setup, timeout_ms=60000, max_paths=400, budget_s=400 if q else 1800))
    out.append(Case("position_coefficients.custom", _positions(2, "custom"), setup=_setup))
    out.append(Case("position_coefficients.grid", _positions(2, "grid"), setup=_setup))
    for shape in ((2, 3), (4, 5)) if q else ((2, 3), (4, 5), (6, 6)):
        out.append(Case(f"wrapped_crop.{shape[0]}x{shape[1]}", _wrapped(shape), max_paths=20000, budget_s=300 if q else 1800))
    for npos, ws in ((1, (2, 3)), (2, (3, 3))):
        out.append(Case(f"windows.pos{npos}.{ws[0]}x{ws[1]}", _windows(npos, ws), setup=_setup, max_paths=20000, budget_s=300 if q else 1800))
    return out
