"""C18 Chunk computations partition arrays exactly."""
import itertools

import z3

from engine import sx, patch
from engine.run import Case
from engine.replay import make
from engine.sx import SNum, _z, zand

PROPERTY = "C18"
BOUNDS = {
    "quick": "equal_sized_chunks n,m,k <= 12; validate_chunks: 1-2 dims, shape entries <= 6, every spec structure "
             "(-1 | int | explicit tuple of <=3 ints | 'auto') per dim, max_elements <= 40; chunk_ranges <= 2 dims x 3 chunks",
    "thorough": "equal_sized_chunks n,m,k <= 24; validate_chunks: 1-3 dims, shape entries <= 8, max_elements <= 80",
}
OUTSIDE = ["max_elements='auto' / byte strings (dask parse_bytes, config lookup)", "shape entries above the bound",
           "chunk size 0 (not a valid specification)"]
STUBS = []
ASSUMPTIONS = ["chunk sizes in a specification are >= 1 or exactly -1", "shape entries >= 1", "'a valid chunking exists' is read in the code's sense: the product of the nominal fixed chunk sizes (auto dims at 1) is within the limit",
               "Python ints are mathematical integers"]

import abtem.core.chunks as CH


def _setup():
    patch.set(CH, "isinstance", sx.sisinstance)
    patch.set(CH, "int", sx.sint)


# ---------------------------------------------------------------------------
def _esc(N):
    def fn(c):
        n = c.int("n", 0, N)
        m = c.int("m", 1, N)
        try:
            r = CH.equal_sized_chunks(n, num_chunks=m)
        except RuntimeError:
            c.prove("esc.raises_only_if_too_many_chunks", _z(n) < _z(m), replay=R_ESC)
            return
        except AssertionError:
            c.prove("esc.internal_assert", False, replay=R_ESC)
            return
        tot = sum(r, 0)
        c.output("len", len(r))
        c.prove("esc.sum", _z(tot) == _z(n), replay=R_ESC)
        c.prove("esc.count", z3.If(_z(n) == 0, len(r) == 0, _z(m) == len(r)), replay=R_ESC)
        if len(r):
            c.prove("esc.sizes_differ_by_at_most_one",
                    zand(*[zand(_z(a) - _z(b) <= 1, _z(b) - _z(a) <= 1) for a in r for b in r]), replay=R_ESC)
            c.prove("esc.positive", zand(*[_z(a) >= 1 for a in r]), replay=R_ESC)
            c.canary("esc.canary_all_equal", zand(*[_z(a) == _z(r[0]) for a in r]))
    return fn


R_ESC = make("""
    from abtem.core.chunks import equal_sized_chunks
    n, m = int(V['n']), int(V['m'])
    try:
        r = equal_sized_chunks(n, num_chunks=m)
        if sum(r) != n or (n and len(r) != m) or (r and (max(r) - min(r) > 1 or min(r) < 1)):
            bad, why = True, f"equal_sized_chunks({n},{m}) = {r}"
    except RuntimeError as e:
        if not n < m: bad, why = True, f"raised {e!r} although n >= m"
    except AssertionError as e:
        bad, why = True, "internal assertion failed"
""")


def _esc_conc(v):
    r = CH.equal_sized_chunks(int(v["n"]), num_chunks=int(v["m"]))
    return {"len": len(r)}


def _esk(N):
    def fn(c):
        n = c.int("n", 0, N)
        k = c.int("k", 1, N)
        try:
            r = CH.equal_sized_chunks(n, chunk_size=k)
        except (RuntimeError, AssertionError):
            c.prove("esk.no_raise", False, replay=R_ESK)
            return
        tot = sum(r, 0)
        c.prove("esk.sum", _z(tot) == _z(n), replay=R_ESK)
        if len(r):
            c.prove("esk.sizes", zand(*[zand(_z(a) >= 1, _z(a) <= _z(k)) for a in r]), replay=R_ESK)
            c.prove("esk.sizes_differ_by_at_most_one",
                    zand(*[_z(a) - _z(b) <= 1 for a in r for b in r]), replay=R_ESK)
            c.prove("esk.minimal_count", (len(r) - 1) * _z(k) < _z(n), replay=R_ESK)
    return fn


R_ESK = make("""
    from abtem.core.chunks import equal_sized_chunks
    n, k = int(V['n']), int(V['k'])
    try:
        r = equal_sized_chunks(n, chunk_size=k)
        if sum(r) != n or (r and (max(r) > k or min(r) < 1 or max(r) - min(r) > 1 or (len(r) - 1) * k >= n)):
            bad, why = True, f"equal_sized_chunks({n}, chunk_size={k}) = {r}"
    except Exception as e:
        bad, why = True, f"raised {e!r}"
""")


def _gen(N):
    def fn(c):
        n = c.int("n", 0, N)
        m = c.int("m", 1, N)
        s0 = c.int("start", -5, 5)
        c.assume(n >= m)
        r = list(CH.generate_chunks(n, num_chunks=m, start=s0))
        if not r:
            c.prove("gen.empty_iff_zero", _z(n) == 0, replay=R_GEN)
            return
        conds = [_z(r[0][0]) == _z(s0), _z(r[-1][1]) == _z(s0) + _z(n)]
        for (a0, a1), (b0, b1) in zip(r, r[1:]):
            conds.append(_z(a1) == _z(b0))
        for a0, a1 in r:
            conds.append(_z(a0) < _z(a1))
        c.prove("gen.contiguous_cover", zand(*conds), replay=R_GEN)
        c.canary("gen.canary", _z(r[-1][1]) == _z(n))
    return fn


R_GEN = make("""
    from abtem.core.chunks import generate_chunks
    n, m, s = int(V['n']), int(V['m']), int(V['start'])
    r = list(generate_chunks(n, num_chunks=m, start=s))
    ok = (not r and n == 0) or (r and r[0][0] == s and r[-1][1] == s + n and all(a[1] == b[0] for a, b in zip(r, r[1:])) and all(a < b for a, b in r))
    if not ok: bad, why = True, f"generate_chunks({n},{m},start={s}) = {r}"
""")


def _ranges(structure):
    def fn(c):
        chunks = tuple(tuple(c.int(f"c{d}_{i}", 1, 9) for i in range(k)) for d, k in enumerate(structure))
        rr = CH.chunk_ranges(chunks)
        conds = []
        for d, (ch, r) in enumerate(zip(chunks, rr)):
            conds.append(len(r) == len(ch))
            conds.append(_z(r[0][0]) == 0)
            conds.append(_z(r[-1][1]) == _z(sum(ch, 0)))
            for i, (a, b) in enumerate(r):
                conds.append(_z(b) - _z(a) == _z(ch[i]))
            for (a0, a1), (b0, b1) in zip(r, r[1:]):
                conds.append(_z(a1) == _z(b0))
        c.prove("ranges.contiguous_cover", zand(*conds), replay=R_RANGES(structure))
        it = list(CH.iterate_chunk_ranges(chunks))
        n_blocks = 1
        for k in structure:
            n_blocks *= k
        ok = [len(it) == n_blocks]
        for idx, sl in it:
            for d, (i, s) in enumerate(zip(idx, sl)):
                ok.append(_z(s.start) == _z(rr[d][i][0]))
                ok.append(_z(s.stop) == _z(rr[d][i][1]))
        c.prove("ranges.iterate_matches", zand(*ok), replay=R_RANGES(structure))
        c.canary("ranges.canary", _z(rr[0][-1][1]) == _z(chunks[0][-1]) if structure[0] > 1 else False)
    return fn


def R_RANGES(structure):
    return make("""
    from abtem.core.chunks import chunk_ranges, iterate_chunk_ranges
    chunks = tuple(tuple(int(V[f'c{d}_{i}']) for i in range(k)) for d, k in enumerate(STRUCT))
    rr = chunk_ranges(chunks)
    for ch, r in zip(chunks, rr):
        ok = r[0][0] == 0 and r[-1][1] == sum(ch) and all(b - a == c for (a, b), c in zip(r, ch)) and all(a[1] == b[0] for a, b in zip(r, r[1:]))
        if not ok: bad, why = True, f"chunk_ranges({chunks}) = {rr}"
    for idx, sl in iterate_chunk_ranges(chunks):
        for d, (i, s) in enumerate(zip(idx, sl)):
            if (s.start, s.stop) != rr[d][i]: bad, why = True, f"iterate_chunk_ranges {idx} {sl}"
""", STRUCT=tuple(structure))


# ---- validate_chunks ---------------------------------------------------------
# spec structure per dim: 'm' (-1), 'i' (symbolic int), 't1'/'t2'/'t3' (explicit tuple), 'a' ('auto')

def _spec_item(c, kind, d, S):
    if kind == "m":
        return -1
    if kind == "i":
        return c.int(f"ci{d}", 1, S + 1)
    if kind == "a":
        return "auto"
    k = int(kind[1])
    return tuple(c.int(f"ct{d}_{i}", 1, S) for i in range(k))


def _validate(struct, S, L, whole_int=False):
    def fn(c):
        shape = tuple(c.int(f"s{d}", 1, S) for d in range(len(struct)))
        has_auto = "a" in struct or whole_int
        if whole_int:
            spec = c.int("lim", 1, L)
            lim = spec
        else:
            spec = tuple(_spec_item(c, k, d, S) for d, k in enumerate(struct))
            lim = c.int("lim", 1, L) if has_auto else 10**6
        rp = R_VAL(struct, whole_int)
        try:
            out = CH.validate_chunks(shape, spec, max_elements=lim)
        except ValueError:
            # legitimate only if an explicit tuple does not sum to its shape entry
            mism = [(_z(sum(sp, 0)) != _z(s)) for s, sp in zip(shape, spec if not whole_int else ()) if isinstance(sp, tuple)]
            c.prove("validate.valueerror_only_on_mismatch", sx.zor(*mism), replay=rp)
            return
        except RuntimeError:
            # "cannot be automatically chunked": must not happen when a valid chunking exists
            if has_auto:
                fixed = z3.IntVal(1)
                for s, sp in zip(shape, spec if not whole_int else ()):
                    if isinstance(sp, tuple):
                        fixed = fixed * _z(sx.smax(*sp))
                    elif isinstance(sp, SNum):
                        fixed = fixed * _z(sp)
                    elif sp == -1:
                        fixed = fixed * _z(s)
                c.prove("validate.auto_raises_only_if_no_valid_chunking", fixed > _z(lim), replay=rp)
            else:
                c.prove("validate.no_runtimeerror", False, replay=rp)
            return
        conds = [len(out) == len(shape)]
        for s, ch in zip(shape, out):
            conds.append(_z(sum(ch, 0)) == _z(s))
            for x in ch:
                conds.append(_z(x) >= 1)
        c.prove("validate.sums_to_shape_positive", zand(*conds), replay=rp)
        for d, (sp, ch) in enumerate(zip(spec if not whole_int else (), out)):
            if isinstance(sp, SNum):
                c.prove("validate.int_chunk_respected", zand(*[_z(x) <= _z(sp) for x in ch]), replay=rp)
            if sp == -1 and not isinstance(sp, SNum):
                c.prove("validate.minus_one_single_chunk", len(ch) == 1, replay=rp)
        if has_auto:
            # a valid chunking exists iff product of fixed dims' max chunk <= limit (auto dims at 1)
            prod = z3.IntVal(1)
            fixed = z3.IntVal(1)
            for d, ch in enumerate(out):
                mx = sx.smax(*ch) if len(ch) > 1 else ch[0]
                prod = prod * _z(mx)
                if not whole_int and struct[d] != "a":
                    sp = spec[d]
                    fixed = fixed * (_z(sp) if isinstance(sp, SNum) else _z(mx))
            c.prove("validate.auto_within_limit_when_possible", z3.Implies(fixed <= _z(lim), prod <= _z(lim)), replay=rp)
            c.canary("validate.canary_auto", prod < _z(lim))
        else:
            c.canary("validate.canary", _z(sum(out[0], 0)) == _z(shape[0]) + 1)
    return fn


def R_VAL(struct, whole_int):
    return make("""
    from abtem.core.chunks import validate_chunks
    shape = tuple(int(V[f's{d}']) for d in range(len(STRUCT)))
    spec = []
    for d, k in enumerate(STRUCT):
        if k == 'm': spec.append(-1)
        elif k == 'i': spec.append(int(V[f'ci{d}']))
        elif k == 'a': spec.append('auto')
        else: spec.append(tuple(int(V[f'ct{d}_{i}']) for i in range(int(k[1]))))
    spec = tuple(spec)
    has_auto = 'a' in STRUCT or WHOLE
    lim = int(V['lim']) if has_auto else 10**6
    if WHOLE: spec = lim
    import math
    def fixedprod():
        f = 1
        if WHOLE: return f
        for s, sp in zip(shape, spec):
            if isinstance(sp, tuple): f *= max(sp)
            elif sp == -1: f *= s
            elif isinstance(sp, int): f *= sp
        return f
    try:
        out = validate_chunks(shape, spec, max_elements=lim)
        ok = len(out) == len(shape) and all(sum(c) == s and all(x >= 1 for x in c) for s, c in zip(shape, out))
        if not WHOLE:
            for sp, c in zip(spec, out):
                if isinstance(sp, int) and sp != -1 and any(x > sp for x in c): ok = False
                if sp == -1 and len(c) != 1: ok = False
        if has_auto and fixedprod() <= lim and math.prod(max(c) for c in out) > lim: ok = False
        if not ok: bad, why = True, f"validate_chunks({shape}, {spec}, {lim}) = {out}"
    except ValueError as e:
        if WHOLE or not any(isinstance(sp, tuple) and sum(sp) != s for s, sp in zip(shape, spec)):
            bad, why = True, f"ValueError {e} for {shape} {spec}"
    except RuntimeError as e:
        if not has_auto or fixedprod() <= lim:
            bad, why = True, f"RuntimeError {e} for {shape} {spec} lim {lim}"
""", STRUCT=tuple(struct), WHOLE=whole_int)


def cases(tier):
    q = tier == "quick"
    N = 12 if q else 24
    S = 6 if q else 8
    L = 40 if q else 80
    out = [
        Case("equal_sized_chunks.num_chunks", _esc(N), setup=_setup, concrete=_esc_conc,
             vectors=[{"n": 7, "m": 3}, {"n": 12, "m": 4}, {"n": 5, "m": 5}]),
        Case("equal_sized_chunks.chunk_size", _esk(N), setup=_setup),
        Case("generate_chunks", _gen(min(N, 12)), setup=_setup),
    ]
    for st in [(1,), (3,), (2, 3)] + ([] if q else [(3, 3), (1, 2, 3)]):
        out.append(Case("chunk_ranges." + "x".join(map(str, st)), _ranges(st), setup=_setup))
    kinds = ["m", "i", "t1", "t2", "t3", "a"]
    dims = (1, 2) if q else (1, 2, 3)
    for nd in dims:
        for st in itertools.product(kinds, repeat=nd):
            if nd == 3 and (sum(k.startswith("t") for k in st) > 1 or st.count("a") == 0):
                continue
            out.append(Case("validate." + "-".join(st), _validate(st, S if nd < 3 else 5, L), setup=_setup,
                            max_paths=20000, budget_s=240 if q else 1500))
    for nd in dims:
        out.append(Case(f"validate.int_limit.{nd}d", _validate(("a",) * nd, S if nd < 3 else 5, L, whole_int=True),
                        setup=_setup, max_paths=20000, budget_s=240 if q else 1500))
    return out
