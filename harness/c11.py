"""C11 A potential reused after changing its grid behaves like a fresh one."""
import numpy as np
import z3

from engine import sx, patch
from engine.run import Case
from engine.replay import make
from engine.sx import SNum, Tok, zand, _z

PROPERTY = "C11"
BOUNDS = {
    "quick": "histories of 2 and 3 successive requests to the integrator caches, each with symbolic gpts (ints >= 1) and sampling (reals > 0) and one of two elements; "
             "the expensive table/scattering-factor computations are uninterpreted functions of exactly the arguments the real call receives",
    "thorough": "histories of 4 requests, three elements",
}
OUTSIDE = ["the values of scattering factors / integral tables", "get_sliced_atoms cache (does not depend on the grid)", "lazy builds"]
STUBS = ["_calculate_scattering_factor(symbol, gpts, sampling, device) -> calc_sf(symbol, gpts, sampling)", "_calculate_integral_table(symbol, sampling) -> calc_tab(symbol, sampling)"]
ASSUMPTIONS = ["a fresh potential computes calc(symbol, current grid): the reused object must return the same term"]

import abtem.integrals as I

R = z3.DeclareSort("Result")
CALC_SF = z3.Function("calc_sf", z3.IntSort(), z3.IntSort(), z3.IntSort(), z3.RealSort(), z3.RealSort(), R)
CALC_TAB = z3.Function("calc_tab", z3.IntSort(), z3.RealSort(), z3.RealSort(), R)
SYMS = ["C", "Au", "Si"]


def _setup():
    patch.patch(I)


def _history(kind, steps, nsym):
    rp = R_H(kind)

    def fn(c):
        if kind == "infinite":
            integ = I.ScatteringFactorProjectionIntegrals()
            integ._calculate_scattering_factor = lambda sym, gpts, sampling, device: Tok(CALC_SF(SYMS.index(sym), _z(gpts[0]), _z(gpts[1]), _z(sampling[0]), _z(sampling[1])))
        else:
            integ = I.QuadratureProjectionIntegrals()
            integ._calculate_integral_table = lambda sym, sampling: Tok(CALC_TAB(SYMS.index(sym), _z(sampling[0]), _z(sampling[1])))
        for t in range(steps):
            g = (c.int(f"g{t}x", 1), c.int(f"g{t}y", 1))
            s = (c.real(f"s{t}x", 0, lo_strict=True), c.real(f"s{t}y", 0, lo_strict=True))
            k = c.int(f"sym{t}", 0, nsym - 1)
            sym = SYMS[int(k)]
            if kind == "infinite":
                got = integ.get_scattering_factor(sym, g, s, "cpu")
                want = CALC_SF(SYMS.index(sym), _z(g[0]), _z(g[1]), _z(s[0]), _z(s[1]))
            else:
                got = integ.get_integral_table(sym, s)
                want = CALC_TAB(SYMS.index(sym), _z(s[0]), _z(s[1]))
            c.prove("reuse.result_is_that_of_a_fresh_object_for_the_current_grid", got.e == want, replay=rp, info=f"request {t}")
        c.canary("reuse.canary_never_cached", z3.BoolVal(False))
    return fn


def R_H(kind):
    return make("""
    import abtem, ase
    atoms = ase.build.bulk('Au', cubic=True)
    import itertools
    steps = sorted({int(k[1]) for k in V if k.startswith('g')})
    grids = []
    for t in steps:
        g = (min(max(int(V[f'g{t}x']), 8), 40), min(max(int(V[f'g{t}y']), 8), 40))
        grids.append(g)
    if len(set(grids)) == 1: grids[-1] = (grids[-1][0] + 4, grids[-1][1] + 6)
    # also exercise changes along one axis only
    grids = grids + [(grids[-1][0], grids[-1][1] * 2), (grids[-1][0] * 2, grids[-1][1] * 2)]
    pot = abtem.Potential(atoms, gpts=grids[0], slice_thickness=2, projection=KIND)
    for g in grids:
        pot.gpts = g
        try:
            a = np.asarray(pot.build(lazy=False).array)
        except Exception as ex:
            bad, why = True, f"rebuild with gpts {g} after {grids} raised {ex!r}"; break
        ref = np.asarray(abtem.Potential(atoms, gpts=g, slice_thickness=2, projection=KIND).build(lazy=False).array)
        if a.shape != ref.shape or np.abs(a - ref).max() > 1e-4 * np.abs(ref).max(): bad, why = True, f"potential reused with gpts history {grids}: differs from a fresh potential at {g} by {np.abs(a - ref).max() if a.shape == ref.shape else 'shape'}"; break
""", KIND=kind)


def cases(tier):
    q = tier == "quick"
    out = []
    for kind in ("infinite", "finite"):
        for steps in (2, 3) if q else (2, 3, 4):
            out.append(Case(f"history.{kind}.{steps}", _history(kind, steps, 2 if q else 3), setup=_setup, max_paths=5000, budget_s=240 if q else 1500))
    return out
