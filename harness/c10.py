"""C10 Potential building and slice windows are consistent."""
import numpy as np
import z3
import ase

from engine import sx, patch, snp
from engine.run import Case
from engine.replay import make
from engine.sx import SNum, zand, _z

PROPERTY = "C10"
BOUNDS = {
    "quick": "slice windows [first, last) with first/last symbolic (all pairs case-split) for PotentialArray (<= 5 slices), Potential built from atoms (<= 4 slices, "
             "projection integrals stubbed by the slice identity) and CrystalPotential (unit of <= 3 slices x <= 3 repetitions); eager build of FrozenPhonons ensembles with <= 3 members",
    "thorough": "up to 8 slices / 4x3 crystal / 4 members",
}
OUTSIDE = ["array values of the projection integrals (stub returns the identity of the slice and of the atoms it was given)", "lazy builds (dask)"]
STUBS = ["np.random.default_rng(...).integers -> the k-th draw of a generator is the symbolic integer draw_k (crystal with several unit configurations)", "integrator.integrate_on_grid(atoms, a, b, ...) -> constant array 1000*a + sum of atom x-positions (identifies slice and configuration)"]
ASSUMPTIONS = ["0 <= first_slice <= last_slice <= number of slices"]

import abtem
import abtem.potentials.iam as IAM
from abtem.potentials.iam import PotentialArray


def _tagged(n, exit_planes=None):
    arr = np.zeros((n, 2, 2), dtype=np.float32)
    for i in range(n):
        arr[i] = i + 1
    return PotentialArray(arr, slice_thickness=tuple(0.5 + 0.25 * i for i in range(n)), sampling=0.5, exit_planes=exit_planes)


def _sig(s):
    return (float(np.asarray(s.array).ravel()[0]), tuple(round(float(t), 6) for t in s.slice_thickness), tuple(s.exit_planes), np.asarray(s.array).shape)


def _window(kind, n, reps=1):
    rp = R_W(kind, n, reps)

    def fn(c):
        total = n * reps
        first = c.int("first", 0, total)
        last = c.int("last", 0, total)
        c.assume(first <= last)
        f, l = int(first), int(last)
        pot = _make(kind, n, reps)
        try:
            full = [_sig(s) for s in pot.generate_slices()]
            win = [_sig(s) for s in pot.generate_slices(f, l)]
        except (IndexError, ValueError, RuntimeError, StopIteration) as ex:
            c.prove("window.no_exception", False, replay=rp, info=repr(ex))
            return
        c.prove("window.yields_exactly_that_part_of_the_full_sequence", len(full) == total and win == full[f:l], replay=rp, info=f"{kind} [{f},{l})")
        if kind != "array":
            try:
                b = pot.build(f, l, lazy=False)
                ref = pot.build(lazy=False)
            except (IndexError, ValueError, RuntimeError, StopIteration) as ex:
                c.prove("window.build_no_exception", False, replay=rp, info=repr(ex))
                return
            c.prove("window.build_of_window_is_slice_of_full_build", b.array.shape[0] == l - f and bool(np.array_equal(np.asarray(b.array), np.asarray(ref.array)[f:l]))
                    and tuple(b.slice_thickness) == tuple(ref.slice_thickness[f:l]), replay=rp)
        c.canary("window.canary", len(win) == total)
    return fn


class _StubIntegrator:
    periodic = True
    finite = False
    cutoffs = None

    def integrate_on_grid(self, atoms, a, b, gpts, sampling, device="cpu"):
        v = 1000.0 * float(a) + (float(atoms.positions[:, 0].sum()) if len(atoms) else 0.0)
        return np.full(gpts, v, dtype=np.float32)


def _make(kind, n, reps=1, fp=None):
    if kind == "array":
        return _tagged(n, exit_planes=2 if n > 2 else None)
    if kind == "atoms":
        atoms = ase.Atoms("C" * n, positions=[(0.3 + 0.1 * i, 0.5, 0.5 + i) for i in range(n)], cell=(2, 2, n))
        pot = abtem.Potential(fp if fp is not None else atoms, gpts=4, slice_thickness=1.0, exit_planes=2 if n > 2 else None)
        pot._integrator = _StubIntegrator()
        return pot
    unit = _tagged(n)
    return abtem.CrystalPotential(unit, repetitions=(1, 1, reps), exit_planes=2 if n * reps > 2 else None)


def R_W(kind, n, reps):
    return make("""
    import abtem, ase
    from abtem.potentials.iam import PotentialArray
    f, l = int(V['first']), int(V['last'])
    def tagged(n, ep=None):
        arr = np.zeros((n, 4, 4), np.float32)
        for i in range(n): arr[i] = i + 1
        return PotentialArray(arr, slice_thickness=tuple(0.5 + 0.25 * i for i in range(n)), sampling=0.5, exit_planes=ep)
    if KIND == 'array': pot = tagged(N, 2 if N > 2 else None)
    elif KIND == 'atoms': pot = abtem.Potential(ase.Atoms('C' * N, positions=[(0.3 + 0.1 * i, 0.5, 0.5 + i) for i in range(N)], cell=(2, 2, N)), gpts=8, slice_thickness=1.0, exit_planes=2 if N > 2 else None)
    else: pot = abtem.CrystalPotential(tagged(N), repetitions=(1, 1, REPS), exit_planes=2 if N * REPS > 2 else None)
    sig = lambda s: (np.asarray(s.array).copy(), tuple(s.slice_thickness), tuple(s.exit_planes))
    full = [sig(s) for s in pot.generate_slices()]; win = [sig(s) for s in pot.generate_slices(f, l)]
    ok = len(win) == l - f and all(np.array_equal(a[0], b[0]) and a[1:] == b[1:] for a, b in zip(win, full[f:l]))
    if not ok: bad, why = True, f"{KIND}: generate_slices({f}, {l}) yields {len(win)} slices {[float(w[0].ravel()[0]) for w in win]}, full[{f}:{l}] is {[float(w[0].ravel()[0]) for w in full[f:l]]}"
    if KIND != 'array':
        try:
            b = pot.build(f, l, lazy=False).array; ref = pot.build(lazy=False).array
            if b.shape[0] != l - f or not np.array_equal(b, ref[f:l]): bad, why = True, f"{KIND}: build({f},{l}) differs from build()[{f}:{l}]"
        except (IndexError, ValueError, RuntimeError) as ex:
            bad, why = True, f"{KIND}: build({f},{l}) raised {ex!r}"
""", KIND=kind, N=n, REPS=reps)


def _ensemble(ncfg, n):
    rp = R_E(ncfg, n)

    def fn(c):
        atoms = ase.Atoms("C" * n, positions=[(0.3 + 0.1 * i, 0.5, 0.5 + i) for i in range(n)], cell=(2, 2, n))
        seeds = tuple(range(5, 5 + ncfg))
        fp = abtem.FrozenPhonons(atoms, num_configs=ncfg, sigmas=0.1, seed=seeds)
        pot = _make("atoms", n, fp=fp)
        first = c.int("first", 0, n)
        last = c.int("last", 0, n)
        c.assume(first <= last)
        f, l = int(first), int(last)
        built = np.asarray(pot.build(f, l, lazy=False).array)
        want = np.zeros((ncfg, l - f, 4, 4), dtype=np.float32)
        for k, (idx, _, blk) in enumerate(pot.generate_blocks(1)):
            member = blk.item()
            member._integrator = _StubIntegrator()
            for j, s in enumerate(member.generate_slices(f, l)):
                want[k, j] = np.asarray(s.array)[0]
        distinct = len({float(want[k].sum()) for k in range(ncfg)}) == ncfg or l == f
        c.prove("build.member_k_of_the_ensemble_is_at_index_k", built.shape == want.shape and bool(np.array_equal(built, want)) and distinct, replay=rp, info=f"[{f},{l})")
        c.canary("build.canary", built.shape[1] == n)
    return fn


def R_E(ncfg, n):
    return make("""
    import abtem, ase
    atoms = ase.build.bulk('Au', cubic=True)
    fp = abtem.FrozenPhonons(atoms, num_configs=NCFG, sigmas=0.1, seed=tuple(range(5, 5 + NCFG)))
    pot = abtem.Potential(fp, gpts=12, slice_thickness=4.08 / 3)
    f, l = int(V['first']), min(int(V['last']), 3)
    if f > l: f = l
    e = np.asarray(pot.build(f, l, lazy=False).array)
    for k in range(NCFG):
        single = abtem.Potential(abtem.FrozenPhonons(atoms, num_configs=1, sigmas=0.1, seed=(5 + k,)), gpts=12, slice_thickness=4.08 / 3).build(f, l, lazy=False).array
        single = np.asarray(single).reshape(e[k].shape)
        if np.abs(e[k] - single).max() > 1e-4 * (np.abs(single).max() + 1e-30): bad, why = True, f"eager build: ensemble member {k} differs from the potential of configuration {k} (window [{f},{l}))"
""", NCFG=ncfg, N=n)


class _StubRNG:
    """uninterpreted generator: the k-th draw of a fresh generator is the symbolic integer draw{k}"""

    def __init__(self, c):
        self.c, self.k = c, 0

    def integers(self, lo, hi=None, **kw):
        if hi is None:
            lo, hi = 0, lo
        v = self.c.int(f"draw{self.k}", lo, hi - 1)
        self.k += 1
        return int(v)


def _crystal_ensemble(n, ncfg, reps):
    """unit with several configurations: the configuration drawn for repetition i must not depend on the window"""
    rp = R_CE(n, ncfg, reps)

    def fn(c):
        total = n * reps
        arr = np.zeros((ncfg, n, 2, 2), dtype=np.float32)
        for k in range(ncfg):
            for i in range(n):
                arr[k, i] = 100 * (k + 1) + i
        from abtem.core.axes import FrozenPhononsAxis
        unit = PotentialArray(arr, slice_thickness=0.5, sampling=0.5, ensemble_axes_metadata=[FrozenPhononsAxis()])
        pot = abtem.CrystalPotential(unit, repetitions=(1, 1, reps), seeds=(7,))
        first = c.int("first", 0, total); last = c.int("last", 0, total)
        c.assume(first <= last)
        f, l = int(first), int(last)

        class _R:
            @staticmethod
            def default_rng(seed=None):
                return _StubRNG(c)

        shim = snp.make_shim(random=_R)
        patch.set(IAM, "np", shim)
        try:
            full = [_sig(s) for s in pot.generate_slices()]
            win = [_sig(s) for s in pot.generate_slices(f, l)]
        except (IndexError, ValueError, RuntimeError, StopIteration) as ex:
            c.prove("crystal_ensemble.no_exception", False, replay=rp, info=repr(ex))
            return
        c.prove("crystal_ensemble.window_uses_the_configurations_of_the_full_sequence", len(full) == total and win == full[f:l], replay=rp, info=f"[{f},{l})")
    return fn


def R_CE(n, ncfg, reps):
    return make("""
    import abtem
    from abtem.potentials.iam import PotentialArray
    from abtem.core.axes import FrozenPhononsAxis
    arr = np.zeros((NCFG, N, 4, 4), np.float32)
    for k in range(NCFG):
        for i in range(N): arr[k, i] = 100 * (k + 1) + i
    unit = PotentialArray(arr, slice_thickness=0.5, sampling=0.5, ensemble_axes_metadata=[FrozenPhononsAxis()])
    f, l = int(V['first']), int(V['last'])
    for seed in range(1, 9):
        pot = abtem.CrystalPotential(unit, repetitions=(1, 1, REPS), seeds=(seed,))
        full = [float(np.asarray(s.array).ravel()[0]) for s in pot.generate_slices()]
        win = [float(np.asarray(s.array).ravel()[0]) for s in pot.generate_slices(f, l)]
        if win != full[f:l]: bad, why = True, f"seed {seed}: window [{f},{l}) yields {win}, the full sequence there is {full[f:l]}"
""", N=n, NCFG=ncfg, REPS=reps)


def cases(tier):
    q = tier == "quick"
    out = []
    for n in (1, 3, 5) if q else (1, 3, 5, 8):
        out.append(Case(f"window.array.n{n}", _window("array", n), max_paths=400))
    for n in (1, 2, 4) if q else (1, 2, 4, 6):
        out.append(Case(f"window.atoms.n{n}", _window("atoms", n), max_paths=400))
    for n, r in ((1, 3), (3, 2), (2, 3)) if q else ((1, 3), (3, 2), (2, 3), (4, 3), (3, 4)):
        out.append(Case(f"window.crystal.{n}x{r}", _window("crystal", n, r), max_paths=400))
    for n, ncfg, r in ((2, 2, 2), (2, 3, 3)) if q else ((2, 2, 2), (2, 3, 3), (3, 3, 4)):
        out.append(Case(f"window.crystal_ensemble.{n}x{r}.cfg{ncfg}", _crystal_ensemble(n, ncfg, r), max_paths=20000, budget_s=240 if q else 1500))
    for ncfg, n in ((2, 2), (3, 3)) if q else ((2, 2), (3, 3), (4, 4)):
        out.append(Case(f"build.ensemble.cfg{ncfg}.n{n}", _ensemble(ncfg, n), max_paths=400))
    return out
