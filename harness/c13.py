"""C13 Polar measurements integrate exactly the bins inside the requested limits."""
import numpy as np
import z3

from engine import sx, patch
from engine.run import Case
from engine.replay import make
from engine.sx import SNum, zand, _z

PROPERTY = "C13"
BOUNDS = {
    "quick": "bin counts up to 3 radial x 4 azimuthal (every smaller count too); radial/azimuthal sampling and offsets symbolic reals (sampling > 0); "
             "limits = offset + k*sampling for symbolic integers 0 <= k1 <= k2 <= n (all case-split); bin contents symbolic reals; partitions of both ranges at a symbolic cut",
    "thorough": "bin counts up to 5 x 6",
}
OUTSIDE = ["limits that are not aligned with bin edges (property is stated for aligned limits)",
           "float round-off of (limit-offset)/sampling (the code now rounds to the nearest edge; reals stand for floats here)"]
STUBS = ["int() -> truncation over the reals; round() -> exact round-half-to-even over the reals"]
ASSUMPTIONS = ["limits are aligned with bin edges: limit = offset + k*sampling exactly"]

import abtem.measurements as MM
from abtem.core.axes import ScanAxis


def _setup():
    patch.set(MM, "int", sx.sint)
    patch.set(MM, "round", sx.sround)
    patch.set(MM, "float", sx.sfloat)


def _mk(c, nr, na):
    a = sx.sym_array(c, "a", (1, nr, na))
    rs = c.real("rs", 0, lo_strict=True)
    ro = c.real("ro", 0)
    as_ = c.real("as", 0, lo_strict=True)
    ao = c.real("ao")
    pm = MM.PolarMeasurements(a, radial_sampling=rs, azimuthal_sampling=as_, radial_offset=ro, azimuthal_offset=ao,
                              ensemble_axes_metadata=[ScanAxis(sampling=1.0)])
    return pm, a, rs, ro, as_, ao


def _tot(a, r0, r1, c0, c1):
    s = z3.RealVal(0)
    for i in range(r0, r1):
        for j in range(c0, c1):
            s = s + _z(a[0, i, j])
    return s


def _val(res):
    return _z(np.asarray(res.array, dtype=object).ravel()[0])


def _integrate(nr, na):
    rp = R_I(nr, na)

    def fn(c):
        pm, a, rs, ro, as_, ao = _mk(c, nr, na)
        k1 = c.int("k1", 0, nr); k2 = c.int("k2", 0, nr); l1 = c.int("l1", 0, na); l2 = c.int("l2", 0, na)
        c.assume(k1 <= k2); c.assume(l1 <= l2)
        use_r = bool(c.bool("use_radial")); use_a = bool(c.bool("use_azimuthal"))
        kw = {}
        if use_r:
            kw["radial_limits"] = (ro + k1 * rs, ro + k2 * rs)
        if use_a:
            kw["azimuthal_limits"] = (ao + l1 * as_, ao + l2 * as_)
        try:
            res = pm.integrate(**kw)
        except RuntimeError:
            c.prove("integrate.no_limit_exceeded_for_limits_inside_range", False, replay=rp)
            return
        K1, K2 = (int(k1), int(k2)) if use_r else (0, nr)
        L1, L2 = (int(l1), int(l2)) if use_a else (0, na)
        c.output("res", SNum(_val(res)))
        c.prove("integrate.sum_of_exactly_the_bins_inside_limits", _val(res) == _tot(a, K1, K2, L1, L2), replay=rp)
        if not use_r and not use_a:
            c.prove("integrate.no_limits_is_total", _val(res) == _tot(a, 0, nr, 0, na), replay=rp)
        if use_r and not use_a:
            r2 = pm.integrate_radial(ro + k1 * rs, ro + k2 * rs)
            c.prove("integrate_radial.same_as_integrate", _val(r2) == _val(res), replay=rp)
        c.canary("integrate.canary_total", _val(res) == _tot(a, 0, nr, 0, na))
    return fn


def R_I(nr, na):
    return make("""
    from abtem.measurements import PolarMeasurements
    from abtem.core.axes import ScanAxis
    a = np.array([[[float(V[f'a_0_{i}_{j}']) for j in range(NA)] for i in range(NR)]])
    rs, ro, as_, ao = float(V['rs']), float(V['ro']), float(V['as']), float(V['ao'])
    pm = PolarMeasurements(a, radial_sampling=rs, azimuthal_sampling=as_, radial_offset=ro, azimuthal_offset=ao, ensemble_axes_metadata=[ScanAxis(sampling=1.0)])
    k1, k2, l1, l2 = int(V.get('k1', 0)), int(V.get('k2', NR)), int(V.get('l1', 0)), int(V.get('l2', NA))
    kw = {}
    if V.get('use_radial', True): kw['radial_limits'] = (ro + k1 * rs, ro + k2 * rs)
    else: k1, k2 = 0, NR
    if V.get('use_azimuthal', True): kw['azimuthal_limits'] = (ao + l1 * as_, ao + l2 * as_)
    else: l1, l2 = 0, NA
    want = a[0, k1:k2, l1:l2].sum()
    try:
        got = float(np.asarray(pm.integrate(**kw).array).ravel()[0])
        if abs(got - want) > 1e-9 * max(1.0, np.abs(a).sum()): bad, why = True, f"integrate({kw}) = {got}, sum of bins [{k1}:{k2}, {l1}:{l2}] = {want}"
    except RuntimeError as e:
        bad, why = True, f"integrate({kw}) raised {e}"
""", NR=nr, NA=na)


def _iconc(nr, na):
    def f(v):
        a = np.array([[[v[f"a_0_{i}_{j}"] for j in range(na)] for i in range(nr)]])
        pm = MM.PolarMeasurements(a, radial_sampling=v["rs"], azimuthal_sampling=v["as"], radial_offset=v["ro"], azimuthal_offset=v["ao"],
                                  ensemble_axes_metadata=[ScanAxis(sampling=1.0)])
        kw = {}
        if v["use_radial"]:
            kw["radial_limits"] = (v["ro"] + v["k1"] * v["rs"], v["ro"] + v["k2"] * v["rs"])
        if v["use_azimuthal"]:
            kw["azimuthal_limits"] = (v["ao"] + v["l1"] * v["as"], v["ao"] + v["l2"] * v["as"])
        return {"res": float(np.asarray(pm.integrate(**kw).array).ravel()[0])}
    return f


def _partition(nr, na):
    rp = R_P(nr, na)

    def fn(c):
        pm, a, rs, ro, as_, ao = _mk(c, nr, na)
        m = c.int("cut_r", 0, nr)
        n = c.int("cut_a", 0, na)
        full = _val(pm.integrate())
        try:
            ra = _val(pm.integrate(radial_limits=(ro, ro + m * rs))) + _val(pm.integrate(radial_limits=(ro + m * rs, ro + nr * rs)))
            az = _val(pm.integrate(azimuthal_limits=(ao, ao + n * as_))) + _val(pm.integrate(azimuthal_limits=(ao + n * as_, ao + na * as_)))
        except RuntimeError:
            c.prove("partition.no_exception", False, replay=rp)
            return
        c.prove("partition.radial_parts_sum_to_full", ra == full, replay=rp)
        c.prove("partition.azimuthal_parts_sum_to_full", az == full, replay=rp)
    return fn


def R_P(nr, na):
    return make("""
    from abtem.measurements import PolarMeasurements
    from abtem.core.axes import ScanAxis
    a = np.array([[[float(V[f'a_0_{i}_{j}']) for j in range(NA)] for i in range(NR)]])
    rs, ro, as_, ao = float(V['rs']), float(V['ro']), float(V['as']), float(V['ao'])
    pm = PolarMeasurements(a, radial_sampling=rs, azimuthal_sampling=as_, radial_offset=ro, azimuthal_offset=ao, ensemble_axes_metadata=[ScanAxis(sampling=1.0)])
    m, n = int(V['cut_r']), int(V['cut_a'])
    f = lambda **kw: float(np.asarray(pm.integrate(**kw).array).ravel()[0])
    tol = 1e-9 * max(1.0, np.abs(a).sum())
    try:
        full = f()
        ra = f(radial_limits=(ro, ro + m * rs)) + f(radial_limits=(ro + m * rs, ro + NR * rs))
        az = f(azimuthal_limits=(ao, ao + n * as_)) + f(azimuthal_limits=(ao + n * as_, ao + NA * as_))
        if abs(ra - full) > tol: bad, why = True, f"radial partition at bin {m}: {ra} != total {full}"
        if abs(az - full) > tol: bad, why = True, f"azimuthal partition at bin {n}: {az} != total {full}"
    except RuntimeError as e:
        bad, why = True, f"raised {e}"
""", NR=nr, NA=na)


def cases(tier):
    q = tier == "quick"
    shapes = [(1, 1), (2, 3), (3, 4)] if q else [(1, 1), (2, 3), (3, 4), (4, 4), (5, 6)]
    out = []
    for nr, na in shapes:
        vec = []
        if (nr, na) == (2, 3):
            vec = [dict({f"a_0_{i}_{j}": float(1 + i * 3 + j) for i in range(2) for j in range(3)}, rs=10.0, ro=20.0, **{"as": 0.5}, ao=0.25,
                        k1=0, k2=2, l1=1, l2=3, use_radial=True, use_azimuthal=True)]
        out.append(Case(f"integrate.{nr}x{na}", _integrate(nr, na), setup=_setup, concrete=_iconc(nr, na), vectors=vec, max_paths=20000,
                        budget_s=200 if q else 1500))
        out.append(Case(f"partition.{nr}x{na}", _partition(nr, na), setup=_setup, max_paths=20000))
    return out
