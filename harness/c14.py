"""C14 Diffraction pattern geometry is self-consistent."""
import numpy as np
import z3

from engine import sx, patch, snp
from engine.run import Case
from engine.replay import make
from engine.sx import SNum, SComplex, zand, _z, _real

PROPERTY = "C14"
BOUNDS = {
    "quick": "wave grids (N0, N1) up to 6x5 cropped to every smaller-or-equal pattern shape down to 1x1 with symbolic complex spectra; parity helpers with gpts symbolic in 1..40; "
             "pattern coordinates for sizes 1..7 (odd and even) with symbolic sampling and wavelength; block_direct on 4x3, 5x4, 3x3 patterns (shifted and unshifted) with symbolic radius",
    "thorough": "wave grids up to 8x7; block_direct up to 6x5",
}
OUTSIDE = ["FFT values: the spectrum of the wave is the symbolic input (crop/shift/mask logic acts on it)", "normalisation constants", "lazy evaluation", "float round-off in pixel angles"]
STUBS = ["fft2 -> identity (the input array stands for its own spectrum)", "abs2 -> left out (return_complex=True)", "np.sqrt/np.ceil -> exact models",
         "energy2wavelength -> symbolic positive wavelength"]
ASSUMPTIONS = ["sampling > 0, wavelength > 0; angular sampling for block_direct given as exact constants (1, 3/2) mrad"]

import abtem.waves as W
import abtem.measurements as MM
import abtem.core.fft as F
import abtem.core.axes as AX
import abtem.core.energy as E
from abtem.core.axes import ScanAxis

LAM = z3.Real("wavelength")


def _setup():
    patch.patch(W, dtype=False)
    patch.patch(F)
    patch.patch(AX)
    patch.patch(MM)
    import abtem.core.grid as G
    patch.patch(G)
    patch.set(W, "fft2", lambda a, overwrite_x=False, **k: a)
    patch.set(MM, "energy2wavelength", lambda e: SNum(LAM))


def _parity(c):
    n = c.int("n", 1, 40)
    old = c.int("old", 1, 40)
    even = bool(c.bool("even"))
    r = W._ensure_parity(n, even)
    c.output("r", r)
    c.prove("parity.requested_parity_holds", (_z(r) % 2 == 0) == even, replay=R_PAR)
    c.prove("parity.changes_by_at_most_one", zand(_z(r) - _z(n) <= 1, _z(n) - _z(r) <= 1, _z(r) >= _z(n)), replay=R_PAR)
    for par in ("same", "odd", "even"):
        g = W._ensure_parity_of_gpts((n, n + 1), (old, old + 1), par)
        if par == "same":
            want = [(_z(g[0]) % 2) == (_z(old) % 2), (_z(g[1]) % 2) == ((_z(old) + 1) % 2)]
        elif par == "odd":
            want = [_z(g[0]) % 2 == 1, _z(g[1]) % 2 == 1]
        else:
            want = [_z(g[0]) % 2 == 0, _z(g[1]) % 2 == 0]
        c.prove("parity.gpts_have_requested_parity", zand(*want, _z(g[0]) >= _z(n), _z(g[0]) <= _z(n) + 1), replay=R_PAR, info=par)
    c.canary("parity.canary", _z(r) == _z(n))


R_PAR = make("""
    from abtem.waves import _ensure_parity, _ensure_parity_of_gpts
    n, old, even = int(V['n']), int(V['old']), bool(V['even'])
    r = _ensure_parity(n, even)
    if (r % 2 == 0) != even or not (n <= r <= n + 1): bad, why = True, f"_ensure_parity({n},{even}) = {r}"
    for par in ('same', 'odd', 'even'):
        g = _ensure_parity_of_gpts((n, n + 1), (old, old + 1), par)
        want = (old % 2, (old + 1) % 2) if par == 'same' else (1, 1) if par == 'odd' else (0, 0)
        if (g[0] % 2, g[1] % 2) != want: bad, why = True, f"_ensure_parity_of_gpts(({n},{n + 1}), ({old},{old + 1}), {par}) = {g}"
""")


def _pconc(v):
    return {"r": W._ensure_parity(int(v["n"]), bool(v["even"]))}


def _within_angle(c):
    """angle-limited patterns have the requested parity and cover the angle"""
    from harness import c04 as H4
    ang = c.real("angle", 0, lo_strict=True)
    c.pc += [LAM > 0]
    n0 = c.int("n0", 2, 12)
    g = (int(n0), int(n0) + 1)
    w = H4.mk_waves(g, (SNum(z3.RealVal("1/5")), SNum(z3.RealVal("1/4"))))
    patch.set(E, "energy2wavelength", lambda e: SNum(LAM))
    c.assume(_z(ang) <= 6 * _z(w.angular_sampling[0]))
    for par in ("same", "odd", "even"):
        r = w._gpts_within_angle(ang, parity=par)
        for a in range(2):
            want_even = (g[a] % 2 == 0) if par == "same" else (par == "even")
            half = (_z(r[a]) - z3.If(_z(r[a]) % 2 == 0, 0, 1)) / 2 if False else None
            c.prove("within_angle.parity", (_z(r[a]) % 2 == 0) == want_even, replay=None, info=par)
            # the pattern reaches at least the requested angle: (r-1)/2 * sampling >= angle
            c.prove("within_angle.covers_angle", z3.ToReal(_z(r[a]) - 1) / 2 * _z(w.angular_sampling[a]) >= _z(ang), replay=None, info=par)


def _crop(N, n):
    rp = R_CROP(N, n)

    def fn(c):
        A = sx.sym_array(c, "a", N, kind="complex")
        full = W.Waves._diffraction_pattern(A, tuple(N), True, True, False)
        crop = W.Waves._diffraction_pattern(A, tuple(n), True, True, False)
        raw = W.Waves._diffraction_pattern(A, tuple(n), True, False, False)
        ok = [crop.shape == tuple(n), full.shape == tuple(N)]
        if all(ok):
            for i in range(n[0]):
                for j in range(n[1]):
                    fi, fj = i - n[0] // 2, j - n[1] // 2
                    ok.append(sx.zeq(SComplex.of(crop[i, j]), SComplex.of(full[fi + N[0] // 2, fj + N[1] // 2])))
        c.prove("crop.cropped_pattern_is_centered_crop_of_full_pattern", zand(*ok), replay=rp)
        un = np.fft.ifftshift(np.asarray(crop), axes=(-2, -1))
        c.prove("fftshift_false_is_inverse_shift_of_fftshift_true", zand(raw.shape == tuple(n), *[sx.zeq(SComplex.of(np.asarray(raw)[i]), SComplex.of(un[i])) for i in np.ndindex(tuple(n))]), replay=rp)
        # the measurement-level crop of a shifted pattern gives the same thing
        mc = MM.DiffractionPatterns._crop(np.asarray(full).view(snp.SymArr), tuple(n))
        c.prove("crop.measurement_crop_matches", zand(*[sx.zeq(SComplex.of(np.asarray(mc)[i]), SComplex.of(np.asarray(crop)[i])) for i in np.ndindex(tuple(n))]), replay=rp)
        if n[0] * n[1] > 1:
            c.canary("crop.canary_corner", sx.zeq(SComplex.of(crop[0, 0]), SComplex.of(full[N[0] - 1, N[1] - 1])) if tuple(n) != tuple(N) else z3.BoolVal(False))
    return fn


def R_CROP(N, n):
    return make("""
    import abtem
    from abtem.waves import Waves
    from abtem.measurements import DiffractionPatterns
    rng = np.random.default_rng(0); A = (rng.random(NN) + 1j * rng.random(NN)).astype(np.complex64)
    full = Waves._diffraction_pattern(A, NN, True, True, False); crop = Waves._diffraction_pattern(A, nn, True, True, False); raw = Waves._diffraction_pattern(A, nn, True, False, False)
    ref = np.zeros(nn, complex)
    for i in range(nn[0]):
        for j in range(nn[1]):
            ref[i, j] = full[i - nn[0] // 2 + NN[0] // 2, j - nn[1] // 2 + NN[1] // 2]
    if crop.shape != tuple(nn) or np.abs(crop - ref).max() > 1e-5: bad, why = True, f"cropped pattern {NN}->{nn} is not the centered crop"
    if np.abs(raw - np.fft.ifftshift(crop, axes=(-2, -1))).max() > 1e-5: bad, why = True, "fftshift=False pattern is not the inverse shift of the fftshift=True pattern"
    if np.abs(DiffractionPatterns._crop(full, nn) - crop).max() > 1e-5: bad, why = True, "DiffractionPatterns._crop differs"
""", NN=tuple(N), nn=tuple(n))


def _mk_dp(arr, sampling, fftshift, with_scan=True):
    dp = MM.DiffractionPatterns(np.zeros(arr.shape, dtype=np.float32), sampling=1.0, fftshift=fftshift,
                                ensemble_axes_metadata=[ScanAxis(sampling=1.0)] if with_scan else [], metadata={"energy": 100e3})
    dp._array = arr
    dp._sampling = sampling
    return dp


def _coords(n0, n1):
    rp = R_COORD(n0, n1)

    def fn(c):
        c.pc += [LAM > 0]
        s = (c.real("sx", 0, lo_strict=True), c.real("sy", 0, lo_strict=True))
        arr = sx.sym_array(c, "a", (1, n0, n1))
        res = {}
        for shift in (True, False):
            dp = _mk_dp(arr, s, shift)
            kx, ky = dp.coordinates
            ax, ay = dp.angular_coordinates
            lim = dp.limits
            res[shift] = (kx, ky, ax, ay)
            ok = [len(kx) == n0, len(ky) == n1]
            for a, (coords, ang, n, ss) in enumerate(((kx, ax, n0, s[0]), (ky, ay, n1, s[1]))):
                for i in range(n):
                    f = (i - n // 2) if shift else (i if i < (n + 1) // 2 else i - n)
                    ok.append(sx.zclose(coords[i], SNum(f * _z(ss)), rtol=1e-12, atol=1e-300))
                    ok.append(sx.zclose(ang[i], SNum(f * _z(ss) * LAM * 1000), rtol=1e-12, atol=1e-300))
            c.prove("coordinates.pixel_i_has_its_frequency_and_angle", zand(*ok), replay=rp, info=f"fftshift={shift}")
            if shift:
                c.prove("limits.first_and_last_frequency", zand(_z(lim[0][0]) == _z(kx[0]), _z(lim[0][1]) == _z(kx[-1]), _z(lim[1][0]) == _z(ky[0]), _z(lim[1][1]) == _z(ky[-1])), replay=rp)
        t, f = res[True], res[False]
        ok = []
        for k in range(4):
            un = np.fft.ifftshift(np.asarray(t[k], dtype=object))
            ok += [sx.zclose(f[k][i], un[i], rtol=1e-12, atol=1e-300) for i in range(len(un))]
        c.prove("coordinates.unshifted_are_inverse_shift_of_shifted", zand(*ok), replay=rp)
        if n0 > 1:
            c.canary("coordinates.canary", _z(res[False][0][0]) == _z(res[True][0][0]))
    return fn


def R_COORD(n0, n1):
    return make("""
    from abtem.measurements import DiffractionPatterns
    from abtem.core.energy import energy2wavelength
    s = (float(V['sx']), float(V['sy'])); lam = energy2wavelength(100e3)
    for shift in (True, False):
        dp = DiffractionPatterns(np.zeros((N0, N1), np.float32), sampling=s, fftshift=shift, metadata={'energy': 100e3})
        kx, ky = dp.coordinates; ax, ay = dp.angular_coordinates
        for coords, ang, n, ss in ((kx, ax, N0, s[0]), (ky, ay, N1, s[1])):
            f = (np.arange(n) - n // 2) if shift else np.fft.fftfreq(n, 1 / n)
            if np.abs(np.asarray(coords) - f * ss).max() > 1e-6 * ss * n: bad, why = True, f"fftshift={shift}: coordinates {coords} != pixel frequencies {f * ss}"
            if np.abs(np.asarray(ang) - f * ss * lam * 1e3).max() > 1e-5 * ss * lam * 1e3 * n: bad, why = True, f"fftshift={shift}: angular coordinates {ang} != pixel angles {f * ss * lam * 1e3}"
""", N0=n0, N1=n1)


def _block(n0, n1, shift):
    rp = R_BLOCK(n0, n1, shift)

    def fn(c):
        arr = sx.sym_array(c, "a", (1, n0, n1))
        # angular sampling = sampling * lambda * 1e3: choose sampling so that it is exactly (1, 3/2) mrad
        c.pc += [LAM > 0]
        s = (SNum(1 / (LAM * 1000)), SNum(z3.RealVal("3/2") / (LAM * 1000)))
        dp = _mk_dp(arr, s, shift)
        r = c.real("radius", 0)
        out = dp.block_direct(radius=r, margin=False)
        o = np.asarray(out.array, dtype=object)
        ok = [o.shape == arr.shape]
        for i in range(n0):
            for j in range(n1):
                fi = (i - n0 // 2) if shift else (i if i < (n0 + 1) // 2 else i - n0)
                fj = (j - n1 // 2) if shift else (j if j < (n1 + 1) // 2 else j - n1)
                a2 = z3.RealVal(fi * fi) + z3.RealVal(fj * fj) * z3.RealVal("9/4")
                blocked = a2 <= _z(r) * _z(r)
                ok.append(z3.If(blocked, _z(o[0, i, j]) == 0, _z(o[0, i, j]) == _z(arr[0, i, j])))
        c.prove("block_direct.zeroes_exactly_the_pixels_within_radius", zand(*ok), replay=rp)
        c.canary("block_direct.canary_nothing_blocked", zand(*[_z(o[0, i, j]) == _z(arr[0, i, j]) for i in range(n0) for j in range(n1)]))
    return fn


def R_BLOCK(n0, n1, shift):
    return make("""
    from abtem.measurements import DiffractionPatterns
    from abtem.core.energy import energy2wavelength
    lam = energy2wavelength(100e3)
    rng = np.random.default_rng(0); A = (rng.random((N0, N1)) + 0.5).astype(np.float32)
    dp = DiffractionPatterns(A.copy(), sampling=(1 / (lam * 1e3), 1.5 / (lam * 1e3)), fftshift=SHIFT, metadata={'energy': 100e3})
    r = float(V['radius'])
    out = np.asarray(dp.block_direct(radius=r, margin=False).array)
    f0 = (np.arange(N0) - N0 // 2) if SHIFT else np.fft.fftfreq(N0, 1 / N0); f1 = (np.arange(N1) - N1 // 2) if SHIFT else np.fft.fftfreq(N1, 1 / N1)
    alpha = np.sqrt(f0[:, None] ** 2 + (1.5 * f1[None]) ** 2)
    near = np.abs(alpha - r) < 1e-4
    want = np.where(alpha <= r, 0.0, A)
    if np.any((np.abs(out - want) > 1e-6) & ~near): bad, why = True, f"block_direct(radius={r}) gives {out.tolist()}, expected {want.tolist()} (fftshift={SHIFT})"
""", N0=n0, N1=n1, SHIFT=shift)


def cases(tier):
    q = tier == "quick"
    out = [Case("parity", _parity, setup=_setup, concrete=_pconc, vectors=[{"n": 7, "old": 4, "even": True}, {"n": 8, "old": 5, "even": True}], max_paths=4000),
           Case("within_angle", _within_angle, setup=_setup, max_paths=4000)]
    big = [(4, 3), (5, 4), (6, 5)] if q else [(4, 3), (5, 4), (6, 5), (7, 6), (8, 7)]
    for N in big:
        for n0 in range(1, N[0] + 1):
            for n1 in range(1, N[1] + 1):
                if q and (N != (6, 5)) and (n0 + n1) % 2 == 0 and (n0, n1) != N:
                    continue
                if q and N == (6, 5) and not (n0 in (1, 3, 4, 6) and n1 in (2, 3, 5)):
                    continue
                out.append(Case(f"crop.{N[0]}x{N[1]}.to.{n0}x{n1}", _crop(N, (n0, n1)), setup=_setup))
    for n0, n1 in ((1, 2), (3, 4), (5, 6), (7, 5)) if q else ((1, 2), (3, 4), (5, 6), (7, 5), (8, 9), (10, 11)):
        out.append(Case(f"coordinates.{n0}x{n1}", _coords(n0, n1), setup=_setup))
    for n0, n1 in ((4, 3), (5, 4), (3, 3)) if q else ((4, 3), (5, 4), (3, 3), (6, 5)):
        for shift in (True, False):
            out.append(Case(f"block_direct.{n0}x{n1}.{'shifted' if shift else 'unshifted'}", _block(n0, n1, shift), setup=_setup, max_paths=5000,
                            budget_s=240 if q else 1500))
    return out
