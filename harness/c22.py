"""C22 Cartesian and polar aberration conversions describe the same aberration."""
import z3

from engine import sx, patch, snp
from engine.run import Case
from engine.replay import make
from engine.sx import SNum, zand, _z, _real

PROPERTY = "C22"
BOUNDS = {
    "quick": "each supported (C_nm, phi_nm) pair symbolic on its own (the functions treat pairs independently) plus the two round symbols; C and phi arbitrary reals "
             "(C != 0 for the angle-carrying pairs); the aberration term C cos(m(theta - phi)) is compared for EVERY theta through its two Fourier components",
    "thorough": "additionally all pairs symbolic at once",
}
OUTSIDE = ["float round-off; the C34 pair is compared with tolerance 1e-9 |C| because the code's constants k = sqrt(3 + sqrt 8), 4 arctan(1/k) are irrational doubles"]
STUBS = ["np.cos/np.sin -> angle split into a multiple of PI/2 (rotation), a sign (even/odd) and an atom with cos^2+sin^2=1",
         "np.arctan2(b, a) -> atomic angle t with r cos t = a, r sin t = b, r = sqrt(a^2+b^2)", "np.sqrt -> exact model"]
ASSUMPTIONS = ["chi_nm(theta) = C cos(m (theta - phi)) / (n+1) alpha^(n+1): equality for every theta <=> equality of C cos(m phi) and C sin(m phi)"]

import abtem.transfer as TR

PAIRS = {"C12": 2, "C21": 1, "C23": 3, "C32": 2, "C34": 4}


def _setup():
    patch.patch(TR)


def _pair(sym):
    m = PAIRS[sym]
    ph = "phi" + sym[1:]
    rp = R_P(sym)

    def fn(c):
        c.pc += sx.pi_axioms()
        C = c.real("C")
        phi = c.real("phi")
        c.assume(C != 0)
        cart = TR.polar2cartesian({sym: C, ph: phi})
        back = TR.cartesian2polar(cart)
        C2, phi2 = back[sym], back[ph]
        # Fourier components of C cos(m(theta - phi)) in theta
        co, si = sx._trig(m * _real(_z(phi)))
        co2, si2 = sx._trig(m * _real(_z(phi2)))
        A, B = _z(C) * co, _z(C) * si
        A2, B2 = _z(C2) * co2, _z(C2) * si2
        tol = 1e-9 if sym == "C34" else 0
        absC = z3.If(_z(C) >= 0, _z(C), -_z(C))
        close = lambda u, v: (u == v) if tol == 0 else z3.And(u - v <= _z(tol) * absC, v - u <= _z(tol) * absC)
        c.prove("roundtrip.same_aberration_function_for_every_angle", z3.And(close(A2, A), close(B2, B)), replay=rp)
        others = [k for k in back if k not in (sym, ph)]
        c.prove("roundtrip.other_coefficients_stay_zero", zand(*[_z(back[k]) == 0 for k in others if k.startswith("C")]), replay=rp)
        c.canary("roundtrip.canary_same_parameters", zand(_z(C2) == _z(C), _z(phi2) == _z(phi)))
    return fn


def R_P(sym):
    return make("""
    from abtem.transfer import polar2cartesian, cartesian2polar
    C, phi = float(V['C']), float(V['phi'])
    m = M; ph = 'phi' + SYM[1:]
    back = cartesian2polar(polar2cartesian({SYM: C, ph: phi}))
    th = np.linspace(0, 2 * np.pi, 17)
    f0 = C * np.cos(m * (th - phi)); f1 = back[SYM] * np.cos(m * (th - back[ph]))
    if np.abs(f0 - f1).max() > 1e-9 * abs(C): bad, why = True, f"{SYM}={C}, {ph}={phi} -> {back[SYM]}, {back[ph]}: aberration function differs by {np.abs(f0 - f1).max()}"
""", SYM=sym, M=PAIRS[sym])


def _round(c):
    a, b = c.real("C10"), c.real("C30")
    back = TR.cartesian2polar(TR.polar2cartesian({"C10": a, "C30": b}))
    c.prove("roundtrip.round_aberrations_unchanged", zand(_z(back["C10"]) == _z(a), _z(back["C30"]) == _z(b)), replay=None)
    c.prove("roundtrip.others_zero", zand(*[_z(back[k]) == 0 for k in back if k.startswith("C") and k not in ("C10", "C30")]), replay=None)


def cases(tier):
    q = tier == "quick"
    out = [Case(f"pair.{sym}", _pair(sym), setup=_setup, timeout_ms=(15000 if q else 120000) if sym == "C34" else 60000, budget_s=300 if q else 1500) for sym in PAIRS]
    out.append(Case("round", _round, setup=_setup))
    return out
