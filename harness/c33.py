"""C33 Unit conversions compose and invert."""
import z3

from engine import sx, patch
from engine.run import Case
from engine.replay import make
from engine.sx import SNum, _z, zand

PROPERTY = "C33"
BOUNDS = {
    "quick": "every unit pair and triple of each category (real space 6 units, reciprocal space 6, angular 3), chosen by symbolic "
             "indices that the solver case-splits exhaustively; sampling, offset symbolic reals; energy symbolic in [1e3, 1e6] eV",
    "thorough": "same (finite unit sets are covered completely in both tiers)",
}
OUTSIDE = ["physical correctness of the table entries themselves (C33 is about composition/inversion)", "float round-off below 1e-12 relative"]
STUBS = ["energy2wavelength -> uninterpreted positive function of energy (cross-category case only)"]
ASSUMPTIONS = ["units are members of abtem.core.units._unit_categories"]

import abtem.core.units as U
import abtem.core.axes as AX

CATS = {"real_space": list(U._unit_categories["real_space"]), "reciprocal_space": list(U._unit_categories["reciprocal_space"]),
        "angular": list(U._unit_categories["angular"])}
LAM = z3.Function("wavelength", z3.RealSort(), z3.RealSort())


def _setup():
    patch.patch(U)
    patch.patch(AX)
    patch.set(U, "energy2wavelength", lambda e: SNum(LAM(sx._real(_z(e)))))


def _triple(cat):
    units = CATS[cat]
    rp = R_T(cat)

    def fn(c):
        x = c.real("x")
        off = c.real("off")
        i = c.int("i", 0, len(units) - 1)
        j = c.int("j", 0, len(units) - 1)
        k = c.int("k", 0, len(units) - 1)
        a, b, d = units[i], units[j], units[k]
        ax = AX.LinearAxis(label="q", sampling=x, offset=off, units=a)
        try:
            ab = ax.convert_units(b)
            abc = ab.convert_units(d)
            ac = ax.convert_units(d)
            aba = ab.convert_units(a)
        except (KeyError, RuntimeError, ValueError, AssertionError) as ex:
            c.prove("convert.no_exception_within_category", False, replay=rp, info=repr(ex))
            return
        c.output("ab_sampling", ab.sampling)
        c.prove("compose.sampling", sx.zclose(abc.sampling, ac.sampling, rtol=1e-12), replay=rp)
        c.prove("compose.offset", sx.zclose(abc.offset, ac.offset, rtol=1e-12), replay=rp)
        c.prove("roundtrip.sampling", sx.zclose(aba.sampling, x, rtol=1e-12), replay=rp)
        c.prove("roundtrip.offset", sx.zclose(aba.offset, off, rtol=1e-12), replay=rp)
        # callers such as the plotting helpers forward the energy whatever the categories are
        en = c.real("energy", 1e3, 1e6)
        c.assume(LAM(_z(en)) > 0)
        try:
            abe = ax.convert_units(b, energy=en)
            fe = U.get_conversion_factor(b, a, energy=en)
        except (KeyError, RuntimeError, ValueError, AssertionError) as ex:
            c.prove("convert.no_exception_with_energy", False, replay=rp, info=repr(ex))
            return
        c.prove("energy_argument_irrelevant_within_category", zand(sx.zclose(abe.sampling, ab.sampling, rtol=1e-12), sx.zclose(abe.offset, ab.offset, rtol=1e-12),
                                                                   sx.zclose(fe, U.get_conversion_factor(b, a), rtol=1e-12)), replay=rp)
        f = U.get_conversion_factor(b, a)
        g = U.get_conversion_factor(a, b)
        c.prove("factor.inverse", sx.zclose(SNum(_z(f) * _z(g)), 1, rtol=1e-12), replay=rp)
        c.prove("factor.positive", _z(f) > 0, replay=rp)
        if a != b:
            c.canary("canary.no_conversion", _z(ab.sampling) == _z(x))
    return fn


def R_T(cat):
    return make("""
    from abtem.core.axes import LinearAxis
    from abtem.core.units import get_conversion_factor
    a, b, d = UNITS[int(V['i'])], UNITS[int(V['j'])], UNITS[int(V['k'])]
    x, off = float(V['x']), float(V['off'])
    ax = LinearAxis(label='q', sampling=x, offset=off, units=a)
    def close(p, q): return abs(p - q) <= 1e-9 * max(abs(p), abs(q)) + 1e-300
    try:
        ab = ax.convert_units(b); abc = ab.convert_units(d); ac = ax.convert_units(d); aba = ab.convert_units(a)
        if not (close(abc.sampling, ac.sampling) and close(abc.offset, ac.offset)): bad, why = True, f"{a}->{b}->{d} gives {abc.sampling}, {a}->{d} gives {ac.sampling}"
        if not (close(aba.sampling, x) and close(aba.offset, off)): bad, why = True, f"{a}->{b}->{a} maps {x} to {aba.sampling}"
        f = get_conversion_factor(b, a); g = get_conversion_factor(a, b)
        if not (f > 0 and close(f * g, 1.0)): bad, why = True, f"factors {a}->{b} {f}, back {g}"
        e = float(V.get('energy', 100e3))
        abe = ax.convert_units(b, energy=e)
        if not (close(abe.sampling, ab.sampling) and close(get_conversion_factor(b, a, energy=e), f)): bad, why = True, f"{a}->{b} with energy={e} gives {abe.sampling}, without {ab.sampling}"
    except (KeyError, RuntimeError, ValueError, AssertionError) as ex:
        bad, why = True, f"conversion {a}->{b}->{d} raised {ex!r}"
""", UNITS=CATS[cat])


def _conc(cat):
    def f(v):
        units = CATS[cat]
        ax = AX.LinearAxis(label="q", sampling=float(v["x"]), offset=float(v["off"]), units=units[v["i"]])
        return {"ab_sampling": ax.convert_units(units[v["j"]]).sampling}
    return f


def _cross(c):
    """reciprocal -> reciprocal -> angular composes with reciprocal -> angular (needs energy)."""
    ru, au = CATS["reciprocal_space"], CATS["angular"]
    x = c.real("x")
    en = c.real("energy", 1e3, 1e6)
    c.assume(LAM(_z(en)) > 0)
    i = c.int("i", 0, len(ru) - 1)
    j = c.int("j", 0, len(ru) - 1)
    k = c.int("k", 0, len(au) - 1)
    a, b, d = ru[i], ru[j], au[k]
    try:
        f_ab = U.get_conversion_factor(b, a)
        f_bd = U.get_conversion_factor(d, b, energy=en)
        f_ad = U.get_conversion_factor(d, a, energy=en)
    except (KeyError, RuntimeError, ValueError, AssertionError) as ex:
        c.prove("cross.no_exception", False, replay=R_X, info=repr(ex))
        return
    c.prove("cross.compose", sx.zclose(SNum(_z(x) * _z(f_ab) * _z(f_bd)), SNum(_z(x) * _z(f_ad)), rtol=1e-12), replay=R_X)
    c.canary("cross.canary", _z(f_bd) == _z(f_ad))


R_X = make("""
    from abtem.core.units import get_conversion_factor
    a, b, d = RU[int(V['i'])], RU[int(V['j'])], AU[int(V['k'])]
    e = float(V['energy'])
    try:
        f_ab = get_conversion_factor(b, a); f_bd = get_conversion_factor(d, b, energy=e); f_ad = get_conversion_factor(d, a, energy=e)
        if abs(f_ab * f_bd - f_ad) > 1e-9 * abs(f_ad): bad, why = True, f"{a}->{b}->{d}: {f_ab * f_bd} vs direct {f_ad}"
    except (KeyError, RuntimeError, ValueError, AssertionError) as ex:
        bad, why = True, f"raised {ex!r}"
""", RU=CATS["reciprocal_space"], AU=CATS["angular"])


def cases(tier):
    out = []
    for cat in CATS:
        out.append(Case(f"triple.{cat}", _triple(cat), setup=_setup, concrete=_conc(cat), max_paths=20000,
                        vectors=[{"x": 2.0, "off": 0.5, "i": 0, "j": 2, "k": 1}, {"x": 0.3, "off": -1.0, "i": 2, "j": 1, "k": 0}]))
    out.append(Case("cross.reciprocal_to_angular", _cross, setup=_setup, max_paths=20000))
    return out
