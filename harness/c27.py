"""C27 Structure factors respect crystal symmetry."""
import fractions
import itertools

import numpy as np
import z3
import ase

from engine import sx, patch, snp
from engine.run import Case
from engine.replay import make
from engine.sx import SNum, Polar, PSum, zand, _z, _real

PROPERTY = "C27"
BOUNDS = {
    "quick": "reflection conditions: Miller indices h, k, l symbolic UNBOUNDED integers for every centering P, I, F, A, B, C; structure factors of 1-3 atoms with symbolic fractional "
             "positions and fixed lattice-vector shifts per atom in an orthorhombic cell, reflections +-h for symbolic integer h, k, l in [-3, 3]; automatic centering detection on a family "
             "of 12 constructed crystals (one and two species, fully and partially centred)",
    "thorough": "h, k, l in [-6, 6]; 4 atoms",
}
OUTSIDE = ["values of the atomic scattering factors (uninterpreted, even in g: only |g|^2 enters the parametrization)", "the reconstructed real-space potential (an inverse FFT)",
           "non-orthogonal cells", "floating point comparison tolerances inside auto_detect_centering"]
STUBS = ["calculate_scattering_factors -> symbolic f[atom, reflection] with f(-g) = f(g)", "np.exp(-2 pi i x) -> unit phasor with turn count -x", "np.linalg.solve with the diagonal cell -> division"]
ASSUMPTIONS = ["a reflection is forbidden by a centering iff the sum over the centering translations t of exp(2 pi i h.t) vanishes (written from crystallography in the harness: "
               "I (1/2,1/2,1/2); F the three face centres; A (0,1/2,1/2); B (1/2,0,1/2); C (1/2,1/2,0))"]

import abtem.bloch.utils as BU
import abtem.bloch.dynamical as BD

TRANS = {"P": [], "I": [(1, 1, 1)], "F": [(0, 1, 1), (1, 0, 1), (1, 1, 0)], "A": [(0, 1, 1)], "B": [(1, 0, 1)], "C": [(1, 1, 0)]}  # in half cells


def _setup():
    patch.patch(BU)
    patch.patch(BD)


def _refl(centering):
    rp = R_R(centering)

    def fn(c):
        h, k, l = c.int("h"), c.int("k"), c.int("l")
        hkl = sx.obj([[h, k, l]])
        try:
            m = BU.get_reflection_condition(hkl, centering)
        except Exception as ex:
            c.prove("reflection_condition.no_exception", False, replay=rp, info=repr(ex))
            return
        allowed = m[0]
        allowed = sx._zb(allowed) if isinstance(allowed, sx.SBool) else z3.BoolVal(bool(allowed))
        # sum_t exp(2 pi i h.t) over {0} + translations: each term is (-1)^(h.t2), t2 = translation in half cells
        total = z3.IntVal(1)
        for t in TRANS[centering]:
            par = (t[0] * _z(h) + t[1] * _z(k) + t[2] * _z(l)) % 2
            total = total + z3.If(par == 0, 1, -1)
        c.prove("reflection_condition.allowed_iff_centering_translations_do_not_cancel", allowed == (total != 0), replay=rp)
        if centering != "P":
            c.canary("reflection_condition.canary_all_allowed", allowed)
    return fn


def R_R(centering):
    return make("""
    from abtem.bloch.utils import get_reflection_condition
    h, k, l = int(V['h']) % 8, int(V['k']) % 8, int(V['l']) % 8
    tr = TRANS[CENT]
    for hh in (h, h + 1):
        for kk in (k, k + 1):
            for ll in (l, l + 1):
                tot = 1 + sum((-1) ** (t[0] * hh + t[1] * kk + t[2] * ll) for t in tr)
                try:
                    got = bool(get_reflection_condition(np.array([[hh, kk, ll]]), CENT)[0])
                except Exception as ex:
                    bad, why = True, f"get_reflection_condition raised {ex!r} for centering {CENT}"; break
                if got != (tot != 0): bad, why = True, f"centering {CENT}: reflection ({hh},{kk},{ll}) allowed={got}, translation sum={tot}"
""", CENT=centering, TRANS=TRANS)


CRYSTALS = []
for cent in "PIFABC":
    lat = [(0, 0, 0)] + TRANS[cent]
    # one species fully centred
    CRYSTALS.append((cent, [("Si", [(fractions.Fraction(1, 10) + fractions.Fraction(a, 2), fractions.Fraction(1, 5) + fractions.Fraction(b, 2), fractions.Fraction(3, 10) + fractions.Fraction(c_, 2)) for a, b, c_ in lat])]))
    # second (heavier) species NOT centred: overall primitive unless P
    CRYSTALS.append(("P", [("O", [(fractions.Fraction(1, 10) + fractions.Fraction(a, 2), fractions.Fraction(1, 5) + fractions.Fraction(b, 2), fractions.Fraction(3, 10) + fractions.Fraction(c_, 2)) for a, b, c_ in lat]),
                           ("Cu", [(fractions.Fraction(2, 5), fractions.Fraction(7, 20), fractions.Fraction(3, 20)), (fractions.Fraction(3, 5), fractions.Fraction(1, 20), fractions.Fraction(9, 20))][: 1 if cent == "P" else 2])]))


def _detect(c):
    i = c.int("crystal", 0, len(CRYSTALS) - 1)
    want, species = CRYSTALS[int(i)]
    symbols, pos = [], []
    for sym, ps in species:
        for p in ps:
            symbols.append(sym)
            pos.append(tuple(float(x % 1) for x in p))
    atoms = ase.Atoms(symbols, scaled_positions=pos, cell=(3.0, 4.0, 5.0), pbc=True)
    import warnings
    with warnings.catch_warnings():
        warnings.simplefilter("ignore")
        got = BU.auto_detect_centering(atoms)
    # the detected centering must be a symmetry of EVERY species (else allowed reflections are dropped)
    ok = True
    for sym, ps in species:
        S = {tuple(x % 1 for x in p) for p in ps}
        for t in TRANS[got]:
            for p in ps:
                q = tuple((x + fractions.Fraction(tt, 2)) % 1 for x, tt in zip(p, t))
                ok = ok and (q in S)
    c.prove("auto_detect.detected_centering_is_a_symmetry_of_every_species", ok, replay=R_D, info=f"{want} -> {got}")
    c.prove("auto_detect.finds_the_centering_of_a_fully_centred_crystal", got == want or len(species) > 1, replay=R_D, info=f"{want} -> {got}")


R_D = make("""
    import ase, warnings, fractions
    from abtem.bloch.utils import auto_detect_centering, get_reflection_condition
    from abtem.bloch.dynamical import calculate_structure_factors
    want, species = CRYSTALS[int(V['crystal'])]
    symbols, pos = [], []
    for sym, ps in species:
        for p in ps: symbols.append(sym); pos.append(tuple(float(fractions.Fraction(x) % 1) for x in p))
    atoms = ase.Atoms(symbols, scaled_positions=pos, cell=(3.0, 4.0, 5.0), pbc=True)
    with warnings.catch_warnings():
        warnings.simplefilter('ignore'); got = auto_detect_centering(atoms)
    hkl = np.array([[h, k, l] for h in range(-2, 3) for k in range(-2, 3) for l in range(-2, 3)])
    F = calculate_structure_factors(hkl, atoms, 'lobato', g_max=10.0)
    allowed = get_reflection_condition(hkl, got)
    if np.abs(F[~allowed]).max(initial=0.0) > 1e-5 * np.abs(F).max(): bad, why = True, f"crystal {int(V['crystal'])} detected as {got}: a reflection forbidden by {got} has |F| = {np.abs(F[~allowed]).max()}"
    if len(species) == 1 and got != want: bad, why = True, f"fully {want}-centred crystal detected as {got}"
""", CRYSTALS=[(w, [(s, [tuple(str(x) for x in p) for p in ps]) for s, ps in sp]) for w, sp in CRYSTALS])


class _Cell:
    def __init__(self, abc):
        self.abc = abc
        self.volume = float(np.prod(abc))
        self.T = np.diag(abc)

    def copy(self):
        return self

    def complete(self):
        return self


class _Atoms:
    def __init__(self, positions, abc, numbers):
        self.positions = positions
        self.cell = _Cell(abc)
        self.numbers = np.array(numbers)

    def __len__(self):
        return len(self.numbers)


def _friedel(natoms, R):
    rp = R_F(natoms)

    def fn(c):
        c.pc += sx.pi_axioms()
        abc = (3.0, 4.0, 5.0)
        frac = sx.sym_array(c, "r", (natoms, 3))
        nshift = np.array([[1, 0, 0], [-1, 2, 0], [0, -3, 1], [2, 2, -2]][:natoms])  # lattice vectors (concrete: h*n with both symbolic is non-linear integer arithmetic)
        h, k, l = c.int("h", -R, R), c.int("k", -R, R), c.int("l", -R, R)
        f = sx.sym_array(c, "f", (natoms,))  # scattering factor of each atom at |g| (same for +g and -g)
        hkl = sx.obj([[h, k, l], [-h, -k, -l]])

        def run(fr):
            pos = np.empty((natoms, 3), dtype=object).view(snp.SymArr)
            for a in range(natoms):
                for d in range(3):
                    pos[a, d] = fr[a, d] * abc[d]
            atoms = _Atoms(pos, abc, [14] * natoms)
            patch.set(BD, "calculate_scattering_factors", lambda **kw: sx.obj([[f[a], f[a]] for a in range(natoms)]))
            patch.set(BD, "calculate_g_vec", lambda hkl, cell: None)
            sh = snp.make_shim(pi=True, exp=snp.exp_dispatch)
            sh._over["linalg"] = type("L", (), {"solve": staticmethod(lambda A, B: (np.asarray(B, dtype=object) / np.diag(np.asarray(A, dtype=float))[:, None]).view(snp.SymArr)),
                                                "norm": staticmethod(snp._linalg_norm)})()
            patch.set(BD, "np", sh)
            patch.set(BD, "get_array_module", lambda *a, **k: sh)
            return BD.calculate_structure_factors(hkl, atoms, "lobato", g_max=10.0)

        F = run(frac)
        shifted = np.empty((natoms, 3), dtype=object).view(snp.SymArr)
        for a in range(natoms):
            for d in range(3):
                shifted[a, d] = frac[a, d] + nshift[a, d]
        F2 = run(shifted)

        def terms(x):
            return x.terms if isinstance(x, PSum) else [x]

        tp, tm = terms(F[0]), terms(F[1])
        ok = [len(tp) == natoms, len(tm) == natoms]
        if all(ok):
            ok += [z3.And(a.amp == b.amp, sx.turns_mod1_eq(a.tau, -b.tau)) for a, b in zip(tp, tm)]
        c.prove("structure_factor.F_of_minus_h_is_conjugate_of_F_of_h", zand(*ok), replay=rp)
        t2 = terms(F2[0])
        ok2 = [len(t2) == natoms]
        if all(ok2):
            ok2 += [z3.And(a.amp == b.amp, sx.turns_mod1_eq(a.tau, b.tau)) for a, b in zip(tp, t2)]
        c.prove("structure_factor.unchanged_by_lattice_translations", zand(*ok2), replay=rp)
        # the phase is -h.r: first-principles check of one term
        want = -(_z(h) * _z(frac[0, 0]) + _z(k) * _z(frac[0, 1]) + _z(l) * _z(frac[0, 2]))
        c.prove("structure_factor.phase_is_minus_2pi_h_dot_r", sx.turns_mod1_eq(tp[0].tau, want), replay=rp)
        c.canary("structure_factor.canary_real", sx.turns_mod1_eq(tp[0].tau, 0))
    return fn


def R_F(natoms):
    return make("""
    import ase
    from abtem.bloch.dynamical import calculate_structure_factors
    fr = np.array([[float(V[f'r_{a}_{d}']) % 1 for d in range(3)] for a in range(NA)])
    n = np.array([[1, 0, 0], [-1, 2, 0], [0, -3, 1], [2, 2, -2]][:NA])
    hkl = np.array([[int(V['h']), int(V['k']), int(V['l'])]]); hkl = np.concatenate([hkl, -hkl])
    cell = (3.0, 4.0, 5.0)
    a1 = ase.Atoms('Si' * NA, scaled_positions=fr, cell=cell, pbc=True)
    a2 = ase.Atoms('Si' * NA, positions=(fr + n) * np.array(cell), cell=cell, pbc=True)
    F1 = calculate_structure_factors(hkl, a1, 'lobato', g_max=10.0); F2 = calculate_structure_factors(hkl, a2, 'lobato', g_max=10.0)
    sc = np.abs(F1).max() + 1e-30
    if abs(F1[1] - np.conj(F1[0])) > 1e-4 * sc: bad, why = True, f"F(-h) = {F1[1]} is not conj F(h) = {np.conj(F1[0])}"
    if np.abs(F2 - F1).max() > 1e-3 * sc: bad, why = True, f"structure factors change under a lattice translation: {F1} -> {F2}"
""", NA=natoms)


def cases(tier):
    q = tier == "quick"
    out = [Case(f"reflection_condition.{cent}", _refl(cent), setup=_setup, max_paths=400) for cent in "PIFABC"]
    out.append(Case("auto_detect", _detect, setup=None, max_paths=200))
    for n in (1, 2, 3) if q else (1, 2, 3, 4):
        out.append(Case(f"friedel.atoms{n}", _friedel(n, 3 if q else 6), setup=_setup, max_paths=2000, budget_s=300 if q else 1500))
    return out
