"""C31 Poisson noise is valid, independent and reproducible (seed / stream bookkeeping)."""
import numpy as np
import z3

from engine import sx, patch, snp
from engine.run import Case
from engine.replay import make
from engine.sx import SNum, Tok, zand, _z, _real

PROPERTY = "C31"
BOUNDS = {
    "quick": "measurements with 2..4 ensemble members x 1 pixel and 2 members x 2 pixels, evaluated as one block and as nblocks equal-sized blocks (nblocks symbolic, case-split 1..n); "
             "seed symbolic; signal*dose symbolic; rate cases: dose > 0 and signals of any sign symbolic on 2x1 and 2x2 arrays; the random generator is an uninterpreted function draw(seed', position, lambda) with seed' = mix(seed)",
    "thorough": "up to 6 members",
}
OUTSIDE = ["distributional facts of numpy's generator itself (whole non-negative counts with the mean it is given); decided here is that the rate abTEM hands it is dose x max(signal, 0)",
           "the conversion of dose_per_area / total_dose into the per-pixel dose (BaseMeasurements.poisson_noise)", "the dask graph: a lazy evaluation with k blocks is "
           "reproduced by calling the real per-block function on each block, which is what apply_transform does"]
STUBS = ["np.random.default_rng(seed).integers(...) -> mix(seed)", "np.random.RandomState(seed').poisson(array) -> elementwise draw(seed', flat position in the block, lambda)"]
ASSUMPTIONS = ["the generator contract used: equal (seed', position, lambda) give equal counts; unequal (seed', position) give independent counts"]

import abtem.noise as N

MIX = z3.Function("mix", z3.IntSort(), z3.IntSort())
DRAW = z3.Function("draw", z3.IntSort(), z3.IntSort(), z3.RealSort(), z3.IntSort())


class _SeedRng:
    def __init__(self, seed):
        self.seed = seed

    def integers(self, *a, **k):
        if self.seed is None:  # unseeded generator: fresh OS entropy on every call
            return SNum(sx.Ctx.cur.new_int("entropy"))
        return SNum(MIX(_z(self.seed)))


class _Poisson:
    log = []

    def __init__(self, seed=None):
        self.seed = seed

    def poisson(self, lam):
        lam = np.asarray(lam, dtype=object)
        out = np.empty(lam.shape, dtype=object)
        for pos, idx in enumerate(np.ndindex(lam.shape)):
            out[idx] = SNum(DRAW(_z(self.seed), z3.IntVal(pos), _real(_z(lam[idx]))))
            _Poisson.log.append((self.seed, pos, lam[idx]))
        return out.view(snp.SymArr)


class _Random:
    default_rng = staticmethod(lambda seed=None: _SeedRng(seed))
    RandomState = _Poisson


class _Obj:
    def __init__(self, arr):
        self._eager_array = arr


def _setup():
    sh = snp.make_shim(random=_Random, iinfo=np.iinfo, int32=np.int32)
    patch.patch(N, shim_obj=sh)
    patch.set(N, "int", sx.sint)


def _noise(shape):
    rp = R_N(shape)
    n = shape[0]

    def fn(c):
        seed = c.int("seed", 0, 2**31 - 1)
        nb = c.int("nblocks", 1, n)
        k = int(nb)
        lam = sx.sym_array(c, "lam", shape, lo=0)
        T = N.NoiseTransform(dose=1.0, seeds=seed)
        _Poisson.log = []
        full = np.asarray(T._calculate_new_array(_Obj(lam.copy())), dtype=object)
        from abtem.core.chunks import equal_sized_chunks
        sizes = equal_sized_chunks(n, num_chunks=k)
        _Poisson.log = []
        parts, start = [], 0
        for sz in sizes:
            parts.append(np.asarray(T._calculate_new_array(_Obj(lam[start:start + sz].copy())), dtype=object))
            start += sz
        log = list(_Poisson.log)
        cat = np.concatenate(parts, axis=0)
        c.prove("noise.chunked_evaluation_equals_single_block_evaluation", zand(cat.shape == full.shape, *[_z(cat[i]) == _z(full[i]) for i in np.ndindex(full.shape)]), replay=rp)
        # distinct elements never draw from the same (seed, stream position)
        pairs = []
        for a in range(len(log)):
            for b in range(a + 1, len(log)):
                pairs.append(z3.Not(z3.And(_z(log[a][0]) == _z(log[b][0]), log[a][1] == log[b][1])))
        c.prove("noise.distinct_elements_use_distinct_stream_positions", zand(*pairs), replay=rp)
        c.canary("noise.canary_noise_free", zand(*[_z(full[i]) == _z(lam[i]) for i in np.ndindex(full.shape)]))
    return fn


def _rate(shape):
    """the rate handed to the generator for element i is dose * max(signal_i, 0): whole counts with expectation dose x signal"""
    rp = R_RATE(shape)

    def fn(c):
        seed = c.int("seed", 0, 2**31 - 1)
        d = c.real("dose", 0, lo_strict=True)
        sig = sx.sym_array(c, "sig", shape)
        T = N.NoiseTransform(dose=d, seeds=seed)
        _Poisson.log = []
        np.asarray(T._calculate_new_array(_Obj(sig.copy())), dtype=object)
        log = list(_Poisson.log)
        flat = list(np.asarray(sig, dtype=object).ravel())
        ok = [len(log) == len(flat)]
        for (sd, pos, lam), a in zip(log, flat):
            ok.append(_real(_z(lam)) == z3.If(_z(a) > 0, _z(a) * _z(d), z3.RealVal(0)))
        c.prove("noise.rate_is_dose_times_nonnegative_signal", zand(*ok), replay=rp)
        c.canary("noise.canary_rate_is_signal", zand(*[_real(_z(lam)) == _z(a) for (sd, pos, lam), a in zip(log, flat)]))
    return fn


def R_RATE(shape):
    return make("""
    import abtem
    from abtem.noise import NoiseTransform
    from abtem.measurements import Images
    sig = np.array([float(V[k]) for k in sorted(V) if k.startswith('sig_')], dtype=np.float64).reshape(SHAPE)
    dose = float(V['dose'])
    seen = {}
    import numpy.random as R
    real = R.RandomState.poisson
    class Spy(R.RandomState):
        def poisson(self, lam, *a, **k):
            seen['lam'] = np.array(lam, dtype=np.float64)
            return real(self, np.clip(lam, 0, 1e9), *a, **k)
    import abtem.noise as N
    N.np.random.RandomState, keep = Spy, N.np.random.RandomState
    try:
        class O: pass
        o = O(); o._eager_array = sig.astype(np.float64)
        NoiseTransform(dose=dose, seeds=int(V['seed']))._calculate_new_array(o)
    finally:
        N.np.random.RandomState = keep
    want = np.clip(sig, 0, None) * dose
    got = seen['lam'].reshape(want.shape)
    if np.abs(got - want).max() > 1e-5 * max(1.0, np.abs(want).max()): bad, why = True, f"rates handed to the Poisson generator {got.ravel().tolist()} != dose*signal {want.ravel().tolist()}"
""", SHAPE=tuple(shape))


def R_N(shape):
    return make("""
    import abtem, dask
    from abtem.measurements import Images
    from abtem.core.axes import OrdinalAxis
    n = SHAPE[0]; k = int(V['nblocks']); seed = int(V['seed'])
    arr = np.full((n,) + tuple(SHAPE[1:]) + (1,) * (3 - len(SHAPE)), 50.0, dtype=np.float32)
    arr = arr.reshape((n, -1, 1)) if arr.ndim != 3 else arr
    im = Images(arr, sampling=0.1, ensemble_axes_metadata=[OrdinalAxis(values=tuple(range(n)))])
    eager = np.asarray(im.poisson_noise(total_dose=1.0, seed=seed).array)
    sizes = abtem.core.chunks.equal_sized_chunks(n, num_chunks=k)
    lazy_im = Images(dask.array.from_array(arr, chunks=(tuple(sizes),) + arr.shape[1:]), sampling=0.1, ensemble_axes_metadata=[OrdinalAxis(values=tuple(range(n)))])
    lazy = np.asarray(lazy_im.poisson_noise(total_dose=1.0, seed=seed).compute().array)
    if not np.array_equal(eager, lazy): bad, why = True, f"seed {seed}: noise with {k} blocks {lazy.ravel().tolist()} differs from the single-block result {eager.ravel().tolist()}"
    starts = np.cumsum((0,) + tuple(sizes))[:-1]
    if k > 1 and all(sizes[0] == s for s in sizes) and all(np.array_equal(lazy[starts[0]:starts[0] + sizes[0]], lazy[s:s + sizes[0]]) for s in starts[1:]):
        bad, why = True, f"seed {seed}: every block of the chunked measurement received IDENTICAL noise {lazy.ravel().tolist()} (members are not independent)"
""", SHAPE=tuple(shape))


def cases(tier):
    q = tier == "quick"
    out = []
    for shape in ((2, 1), (3, 1), (4, 1), (2, 2)) if q else ((2, 1), (3, 1), (4, 1), (2, 2), (6, 1), (4, 2)):
        out.append(Case("noise." + "x".join(map(str, shape)), _noise(shape), setup=_setup, max_paths=400))
    for shape in ((2, 1), (2, 2)) if q else ((2, 1), (2, 2), (3, 2)):
        out.append(Case("rate." + "x".join(map(str, shape)), _rate(shape), setup=_setup, max_paths=400))
    return out
