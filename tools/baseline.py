#!/usr/bin/env python3
"""Run /repo's pinned suite and compare with BASELINE.json's stable_pass list. usage: baseline.py [repo_dir]"""
import json, subprocess, sys, os, tempfile, xml.etree.ElementTree as ET
repo = sys.argv[1] if len(sys.argv) > 1 else "/repo"
if repo == "HEAD":
    # immutable scratch worktree of /repo's HEAD, removed afterwards
    repo = tempfile.mkdtemp(prefix="base_", dir="/tmp")
    subprocess.run(["git", "-C", "/repo", "worktree", "add", "-q", "--detach", "--force", repo, "HEAD"], check=True)
    import atexit
    atexit.register(lambda: subprocess.run(["git", "-C", "/repo", "worktree", "remove", "--force", repo]))
out = tempfile.mktemp(suffix=".xml", dir="/tmp")
env = dict(os.environ); env.pop("ABTEM_VERIF", None); env["PYTHONPATH"] = repo
p = subprocess.run(["/venv/bin/python", "-m", "pytest", "-q", "-p", "no:cacheprovider", "--timeout=900", "-x" if "-x" in sys.argv else "-q",
                    "--continue-on-collection-errors", f"--junitxml={out}", "-n", "8"] if False else
                   ["/venv/bin/python", "-m", "pytest", "-q", "-p", "no:cacheprovider", "--timeout=900",
                    "--continue-on-collection-errors", f"--junitxml={out}"], cwd=repo, env=env, capture_output=True, text=True)
base = json.load(open("/root/.vp/BASELINE.json"))["stable_pass"]
passed = set()
for tc in ET.parse(out).getroot().iter("testcase"):
    if not any(ch.tag in ("failure", "error", "skipped") for ch in tc):
        passed.add(f"{tc.get('classname')}::{tc.get('name')}")
os.remove(out)
missing = [t for t in base if t not in passed]
print(p.stdout.strip().splitlines()[-1])
print(f"stable_pass {len(base)}; now passing of those {len(base) - len(missing)}; regressions {len(missing)}")
for t in missing[:30]: print("  REGRESSION", t)
sys.exit(1 if missing else 0)
