#!/bin/sh
# usage: seed_check.sh <seed-name> <property-id> [tier]   -- apply the seeded patch to /repo, run the check, undo
set -u
P=/verif/seeded/$1/patch.diff
cd /repo && git diff --quiet || { echo "/repo has uncommitted changes"; exit 3; }
git -C /repo apply --whitespace=nowarn "$P" || { echo "patch does not apply"; exit 3; }
cd /verif && ./check "$2" --tier "${3:-quick}" > /tmp/seedcheck_$1.log 2>&1; rc=$?
git -C /repo checkout -- . 
echo "seed $1 property $2: check exit $rc"; grep -E "^VIOLATION|HARNESS-ERROR|quick:|thorough:" /tmp/seedcheck_$1.log | head -5
exit $rc
