#!/usr/bin/env python3
"""Print the as-built per-property table (bounds, outside, stubs, assumptions) from the harness modules' constants
(parsed from source with ast, so nothing is imported)."""
import ast, glob, os, json
rows = []
for p in sorted(glob.glob("/verif/harness/c[0-9][0-9].py")):
    t = ast.parse(open(p).read())
    vals = {}
    for n in t.body:
        if isinstance(n, ast.Assign) and len(n.targets) == 1 and isinstance(n.targets[0], ast.Name) and n.targets[0].id in ("PROPERTY", "BOUNDS", "OUTSIDE", "STUBS", "ASSUMPTIONS", "ENGINE"):
            try:
                vals[n.targets[0].id] = ast.literal_eval(n.value)
            except Exception:
                pass
    doc = ast.get_docstring(t) or ""
    rows.append((vals, doc.splitlines()[0] if doc else ""))
for v, doc in rows:
    print(f"#### {v.get('PROPERTY')} — {doc}")
    b = v.get("BOUNDS", {})
    print(f"- **quick bound:** {b.get('quick')}")
    print(f"- **thorough bound:** {b.get('thorough')}")
    print(f"- **outside the claim:** " + "; ".join(v.get("OUTSIDE", [])))
    print(f"- **stubs/models:** " + "; ".join(v.get("STUBS", [])))
    print(f"- **assumptions:** " + "; ".join(v.get("ASSUMPTIONS", [])))
    print()
