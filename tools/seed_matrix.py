#!/usr/bin/env python3
"""Apply every seeded change to /repo's working tree in turn, run the quick check of its property, revert.
usage: seed_matrix.py [seed-name ...]   (default: all under /verif/seeded)
Writes the outcome into seeded/<name>/meta.json ("check") and the table seeded/RESULTS.md.
/repo must be clean; it is left clean (git checkout -- .)."""
import json, os, re, subprocess, sys, time
ROOT = "/verif"
names = sys.argv[1:] or sorted(d for d in os.listdir(f"{ROOT}/seeded") if os.path.isdir(f"{ROOT}/seeded/{d}"))
if subprocess.run(["git", "-C", "/repo", "status", "--porcelain", "--untracked-files=no"], capture_output=True, text=True).stdout.strip():
    sys.exit("/repo working tree is not clean")
head = subprocess.run(["git", "-C", "/repo", "rev-parse", "--short", "HEAD"], capture_output=True, text=True).stdout.strip()
for n in names:
    d = f"{ROOT}/seeded/{n}"
    meta = json.load(open(f"{d}/meta.json"))
    prop = meta["property"]
    extra = meta.get("also_checked_with", [])
    res = {"repo_head": head}
    r = subprocess.run(["git", "-C", "/repo", "apply", "--whitespace=nowarn", f"{d}/patch.diff"], capture_output=True, text=True)
    if r.returncode != 0:
        res["applies"] = False
        res["error"] = r.stderr[-300:]
    else:
        res["applies"] = True
        try:
            for pid in [prop] + extra:
                t = time.time()
                p = subprocess.run([f"{ROOT}/check", pid, "--tier", "quick"], capture_output=True, text=True, cwd=ROOT)
                out = p.stdout + p.stderr
                obl = sorted(set(re.findall(r"obligation=(\S+)", out)))
                res[pid] = {"exit": p.returncode, "violation_lines": len(re.findall(r"^VIOLATION ", out, re.M)), "obligations": obl[:12],
                            "seconds": round(time.time() - t), "summary": out.strip().splitlines()[-1][:200]}
        finally:
            subprocess.run(["git", "-C", "/repo", "checkout", "--", "."], check=True)
    meta["check"] = res
    json.dump(meta, open(f"{d}/meta.json", "w"), indent=1)
    print(n, json.dumps(res)[:300], flush=True)
# table
rows = ["| seed | property | what the change does / what it needs to manifest | suite with change | check result | obligations that fired |", "|---|---|---|---|---|---|"]
for n in sorted(d for d in os.listdir(f"{ROOT}/seeded") if os.path.isdir(f"{ROOT}/seeded/{d}")):
    m = json.load(open(f"{ROOT}/seeded/{n}/meta.json"))
    c = m.get("check", {})
    suite = m.get("suite", {})
    st = "509/509 stable tests pass" if suite.get("exit") == 0 else ("not run" if not suite else "REGRESSIONS")
    cells = []
    obls = []
    for pid, v in c.items():
        if isinstance(v, dict) and "exit" in v:
            cells.append(f"{pid}: " + ("caught (exit 1)" if v["exit"] == 1 else f"exit {v['exit']}"))
            obls += v["obligations"][:4]
    if c.get("applies") is False:
        cells = ["patch does not apply at " + c.get("repo_head", "")]
    rows.append(f"| {n} | {m['property']} | {m.get('needs', '')} | {st} | {'; '.join(cells)} | {', '.join('`'+o+'`' for o in obls[:5])} |")
open(f"{ROOT}/seeded/RESULTS.md", "w").write("\n".join(rows) + "\n")
