#!/usr/bin/env python3
"""Apply every seeded change to a scratch worktree of /repo HEAD in turn, run the quick check of its property against it (VERIF_REPO), revert.
usage: seed_matrix.py [seed-name ...]   (default: all under /verif/seeded)
Writes the outcome into seeded/<name>/meta.json ("check") and the table seeded/RESULTS.md.
/repo itself is not touched; the worktree and the scratch evidence/replay directory are removed at exit."""
import json, os, re, subprocess, sys, time
ROOT = "/verif"
JOBS = ["--jobs", os.environ.get("SEED_JOBS", "16")]
TABLE_ONLY = "--table-only" in sys.argv
names = [a for a in sys.argv[1:] if not a.startswith("--")] or sorted(d for d in os.listdir(f"{ROOT}/seeded") if os.path.isdir(f"{ROOT}/seeded/{d}"))
import tempfile, atexit
WT = tempfile.mkdtemp(prefix="seedmx_", dir="/tmp")   # scratch worktree of /repo HEAD, removed at exit; /repo itself is never touched
subprocess.run(["git", "-C", "/repo", "worktree", "add", "-q", "--detach", "--force", WT, "HEAD"], check=True)
atexit.register(lambda: subprocess.run(["git", "-C", "/repo", "worktree", "remove", "--force", WT]))
OUTD = tempfile.mkdtemp(prefix="seedmx_out_", dir="/tmp")
atexit.register(lambda: __import__("shutil").rmtree(OUTD, ignore_errors=True))
ENV = dict(os.environ, VERIF_REPO=WT, VERIF_OUT=OUTD)
head = subprocess.run(["git", "-C", "/repo", "rev-parse", "--short", "HEAD"], capture_output=True, text=True).stdout.strip()
for n in ([] if TABLE_ONLY else names):
    d = f"{ROOT}/seeded/{n}"
    meta = json.load(open(f"{d}/meta.json"))
    prop = meta["property"]
    extra = meta.get("also_checked_with", [])
    res = {"repo_head": head}
    r = subprocess.run(["git", "-C", WT, "apply", "--whitespace=nowarn", f"{d}/patch.diff"], capture_output=True, text=True)
    if r.returncode != 0:
        res["applies"] = False
        res["error"] = r.stderr[-300:]
    else:
        res["applies"] = True
        try:
            for pid in [prop] + extra:
                t = time.time()
                p = subprocess.run([f"{ROOT}/check", pid, "--tier", "quick"] + JOBS, capture_output=True, text=True, cwd=ROOT, env=ENV)
                out = p.stdout + p.stderr
                obl = sorted(set(re.findall(r"obligation=(\S+)", out)))
                res[pid] = {"exit": p.returncode, "violation_lines": len(re.findall(r"^VIOLATION ", out, re.M)), "obligations": obl[:12],
                            "seconds": round(time.time() - t), "summary": out.strip().splitlines()[-1][:200]}
        finally:
            subprocess.run(["git", "-C", WT, "checkout", "--", "."], check=True)
    meta["check"] = res
    json.dump(meta, open(f"{d}/meta.json", "w"), indent=1)
    print(n, json.dumps(res)[:300], flush=True)
# table
rows = ["| seed | property | what the change does / what it needs to manifest | suite with change | check result | obligations that fired |", "|---|---|---|---|---|---|"]
for n in sorted(d for d in os.listdir(f"{ROOT}/seeded") if os.path.isdir(f"{ROOT}/seeded/{d}")):
    m = json.load(open(f"{ROOT}/seeded/{n}/meta.json"))
    c = m.get("check", {})
    suite = m.get("suite", {})
    st = "509/509 stable tests pass" if suite.get("exit") == 0 else ("not run" if not suite else "REGRESSIONS")
    cells = []
    obls = []
    for pid, v in c.items():
        if isinstance(v, dict) and "exit" in v:
            cells.append(f"{pid}: " + ("caught (exit 1)" if v["exit"] == 1 else f"exit {v['exit']}"))
            obls += v["obligations"][:4]
    if c.get("applies") is False:
        cells = ["patch does not apply at " + c.get("repo_head", "")]
    rows.append(f"| {n} | {m['property']} | {m.get('needs', '')} | {st} | {'; '.join(cells)} | {', '.join('`'+o+'`' for o in obls[:5])} |")
open(f"{ROOT}/seeded/RESULTS.md", "w").write("\n".join(rows) + "\n")
