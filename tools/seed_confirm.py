#!/usr/bin/env python3
"""Confirm a seeded change: usage seed_confirm.py <name> <property> <src_dir> [--no-suite]
 - scratch worktree of /repo HEAD under /tmp, patch applied
 - demo exits 1 with the change, 0 without
 - pinned suite: every stable_pass test still passes with the change
Writes /verif/seeded/<name>/{patch.diff,demo.py,meta.json}; removes the worktree."""
import json, os, shutil, subprocess, sys, tempfile, time
name, prop, src = sys.argv[1:4]
suite = "--no-suite" not in sys.argv
ROOT = "/verif"
wt = tempfile.mkdtemp(prefix=f"seed_{name}_", dir="/tmp")
subprocess.run(["git", "-C", "/repo", "worktree", "add", "-q", "--detach", "--force", wt, "HEAD"], check=True)
meta = {"name": name, "property": prop, "repo_head": subprocess.run(["git", "-C", "/repo", "rev-parse", "--short", "HEAD"], capture_output=True, text=True).stdout.strip()}
try:
    patch = os.path.join(src, "patch.diff"); demo = os.path.join(src, "demo.py")
    r = subprocess.run(["git", "-C", wt, "apply", "--whitespace=nowarn", patch], capture_output=True, text=True)
    meta["patch_applies"] = r.returncode == 0
    if r.returncode != 0:
        meta["apply_error"] = r.stderr[-500:]
    env = dict(os.environ); env.pop("ABTEM_VERIF", None)
    r1 = subprocess.run(["/venv/bin/python", demo, wt], capture_output=True, text=True, env=dict(env, PYTHONPATH=wt), timeout=1800)
    r0 = subprocess.run(["/venv/bin/python", demo, "/repo"], capture_output=True, text=True, env=dict(env, PYTHONPATH="/repo"), timeout=1800)
    meta["demo_with_change"] = {"exit": r1.returncode, "out": (r1.stdout + r1.stderr)[-600:]}
    meta["demo_without_change"] = {"exit": r0.returncode, "out": (r0.stdout + r0.stderr)[-300:]}
    if suite and meta["patch_applies"]:
        t = time.time()
        rs = subprocess.run(["python3", os.path.join(ROOT, "tools/baseline.py"), wt], capture_output=True, text=True)
        meta["suite"] = {"exit": rs.returncode, "summary": rs.stdout.strip().splitlines()[-6:], "seconds": round(time.time() - t)}
    meta["confirmed"] = bool(meta["patch_applies"] and r1.returncode == 1 and r0.returncode == 0 and (not suite or meta["suite"]["exit"] == 0))
    out = os.path.join(ROOT, "seeded", name); os.makedirs(out, exist_ok=True)
    shutil.copy(patch, os.path.join(out, "patch.diff")); shutil.copy(demo, os.path.join(out, "demo.py"))
    if os.path.exists(os.path.join(src, "notes.md")):
        shutil.copy(os.path.join(src, "notes.md"), os.path.join(out, "notes.md"))
    old = {}
    if os.path.exists(os.path.join(out, "meta.json")):
        old = json.load(open(os.path.join(out, "meta.json")))
    old.update(meta)
    json.dump(old, open(os.path.join(out, "meta.json"), "w"), indent=1)
    print(json.dumps(meta, indent=1))
finally:
    subprocess.run(["git", "-C", "/repo", "worktree", "remove", "--force", wt])
