#!/usr/bin/env python3
"""Regenerates MANIFEST.json from the harness modules present (keeps it valid at all times)."""
import ast, json, os, re, sys
ROOT = os.path.dirname(os.path.dirname(os.path.abspath(__file__)))
NA = {
 "C25": "integral-transform identity over Bessel/exponential kernels (scipy.special.kn, quadrature): no integer or algebraic core an SMT solver can decide; see DESIGN.md section 6",
 "C26": "content is LAPACK eigh and a Pade expm behind FFI plus unitarity of their output; an axiomatised eigh would assume the conclusion (DESIGN.md section 6)",
 "C30": "persistence goes through zarr/numcodecs and the file system (C code and I/O); the pure-Python axis (de)serialisation it relies on is decided under C35",
 "C38": "equality across FFT back ends and precisions is a statement about compiled libraries (FFTW/pocketfft); no encodable code",
}
def meta(path):
    src = open(path).read(); tree = ast.parse(src); out = {}
    for n in tree.body:
        if isinstance(n, ast.Assign) and len(n.targets) == 1 and isinstance(n.targets[0], ast.Name):
            try: out[n.targets[0].id] = ast.literal_eval(n.value)
            except Exception: pass
    out["doc"] = ast.get_docstring(tree) or ""
    return out
props = [json.loads(l) for l in open(os.path.join(ROOT, "properties.jsonl"))]
checks, na = [], []
for p in props:
    pid = p["id"]; h = os.path.join(ROOT, "harness", pid.lower() + ".py")
    if os.path.exists(h) and pid not in NA:
        m = meta(h)
        checks.append({
            "property_id": pid,
            "quick_cmd": f"./check {pid} --tier quick",
            "thorough_cmd": f"./check {pid} --tier thorough",
            "evidence_file": f"/verif/evidence/{pid}.json",
            "replay_cmd_template": f"./check {pid} --replay {{path}}",
            "engine": m.get("ENGINE", "SX"),
            "level_claimed": {"category": m.get("LEVEL", "model_checking"),
                              "text": m.get("LEVEL_TEXT", "Bounded symbolic execution of the real abTEM functions on z3 terms: every feasible path within the stated bounds is explored and each obligation is decided by the solver for all values of the symbolic inputs (unsat = holds for every input in the bound; sat = counterexample, replayed on the unpatched code before it is reported). " + m.get("doc", "")),
                              "design_ref": f"DESIGN.md section 4, {pid}"},
            "level_note": m.get("LEVEL_NOTE", "Trusted: z3; the numpy shim and the listed library models (evidence: stubs); reals stand for floats (sat models are replayed in float arithmetic). Bounds: " + str(m.get("BOUNDS", {}).get("quick", ""))),
            "technique": m.get("TECHNIQUE", "SMT-based bounded symbolic execution of the real Python code (z3), counterexample replay"),
        })
    else:
        na.append({"property_id": pid, "reason": NA.get(pid, "check not built yet (work in progress)")})
man = {
 "version": 1,
 "setup_cmd": "./setup.sh",
 "hooks": {"guard": "ABTEM_VERIF", "enable": "no source hooks: instrumentation is process-local namespace patching done by the harness; checks export ABTEM_VERIF=1 for traceability only",
           "baseline_off_cmd": "cd /repo && /venv/bin/python -m pytest -ra -q -p no:cacheprovider --timeout=900 --continue-on-collection-errors",
           "source_commits": [], "add_only": True},
 "engines": [
   {"name": "SX", "path": "engine/sx.py", "serves_properties": [c["property_id"] for c in checks if c["engine"] == "SX"],
    "kind_free_text": "symbolic shadow execution of the real abTEM functions over z3 (replay-DFS forking, object-dtype numpy arrays, numpy shim, library models)"},
   {"name": "CH", "path": "engine/ch.py", "serves_properties": [c["property_id"] for c in checks if c["engine"] == "CH"],
    "kind_free_text": "CrossHair symbolic execution (z3) of pure-Python string/dict code"}],
 "checks": checks,
 "not_applicable": na,
 "notes": "Solver-based checking of the real code; see DESIGN.md. Exit 0 = held / 1 = VIOLATION (replayed) / 2 = harness error. Known findings and fixed defects: known_findings.json (committed, never written at run time). Seeded changes and which check catches them: seeded/RESULTS.md.",
}
json.dump(man, open(os.path.join(ROOT, "MANIFEST.json"), "w"), indent=1)
print(len(checks), "checks;", len(na), "not applicable/unbuilt")
